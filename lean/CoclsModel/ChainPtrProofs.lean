import CoclsModel.ChainPtr
import CoclsModel.ChainProofs
/-!
The pointer-level chain model (`ChainPtr.lean`) refines the list-level one (`Chain.lean`), and its walker never touches a
dead node.

(a) `ChainIs next h l` — following `_next` from `h` visits exactly `l` and ends in null — with uniqueness, frame, push, pop,
    acyclicity; `follow` is its executable reading.
(b) `Struct` (the structural invariant of the pointers) and `PInv` = `Struct` + the list-level invariant of the abstraction.
(c) `abs : ChainPtr.State → Chain.State`, the one-step simulation `sim_step` (states, events, enabledness) and `sim_run`.
(d) `step_access_ok` / `log_ok`: every plain access to a node field touches a live node; a node is accessed only by its
    owner before it is published and only by the walker afterwards.
-/
set_option linter.unusedSimpArgs false
namespace Cocls.ChainPtr
open Cocls.Chain (Outcome RK WK Kind Seen Obs Ev Cfg upd wkOf Slot Act upd_same upd_other)

/-! ## (a) pointer chains -/

/-- following `_next` from pointer `h` visits exactly the nodes of `l`, in order, and ends in `nullptr` -/
inductive ChainIs (next : Nat → Ptr) : Ptr → List Nat → Prop
  | nil : ChainIs next Seen.null []
  | cons {x : Nat} {l : List Nat} : ChainIs next (next x) l → ChainIs next (Seen.node x) (x :: l)

theorem chainIs_null {next : Nat → Ptr} {l : List Nat} (h : ChainIs next Seen.null l) : l = [] := by
  cases h; rfl

theorem chainIs_not_ready {next : Nat → Ptr} {l : List Nat} : ¬ ChainIs next Seen.ready l := by
  intro h; cases h

theorem chainIs_node {next : Nat → Ptr} {y : Nat} {l : List Nat} (h : ChainIs next (Seen.node y) l) :
    ∃ l', l = y :: l' ∧ ChainIs next (next y) l' := by
  cases h with
  | cons h' => exact ⟨_, rfl, h'⟩

/-- **uniqueness**: the list a pointer denotes is determined by the `_next` fields -/
theorem chainIs_unique {next : Nat → Ptr} {h : Ptr} {l₁ l₂ : List Nat} (h₁ : ChainIs next h l₁) (h₂ : ChainIs next h l₂) :
    l₁ = l₂ := by
  induction h₁ generalizing l₂ with
  | nil => exact (chainIs_null h₂).symm
  | cons _ ih =>
    obtain ⟨l', rfl, h'⟩ := chainIs_node h₂
    rw [ih h']

/-- **frame**: writing `_next` of a node that is not in the chain does not change the chain -/
theorem chainIs_frame {next : Nat → Ptr} {h : Ptr} {l : List Nat} (hc : ChainIs next h l) (x : Nat) (v : Ptr)
    (hx : x ∉ l) : ChainIs (upd next x v) h l := by
  induction hc with
  | nil => exact ChainIs.nil
  | @cons y l' _ ih =>
    have hy : y ≠ x := fun e => hx (e ▸ List.mem_cons_self)
    have hx' : x ∉ l' := fun m => hx (List.mem_cons_of_mem _ m)
    have := ih hx'
    refine ChainIs.cons ?_
    rwa [upd_other _ _ _ _ hy]

/-- frame, for any two `_next` maps that agree on the chain -/
theorem chainIs_congr {next next' : Nat → Ptr} {h : Ptr} {l : List Nat} (hc : ChainIs next h l)
    (hagree : ∀ x, x ∈ l → next' x = next x) : ChainIs next' h l := by
  induction hc with
  | nil => exact ChainIs.nil
  | @cons y l' _ ih =>
    refine ChainIs.cons ?_
    rw [hagree y List.mem_cons_self]
    exact ih (fun x hx => hagree x (List.mem_cons_of_mem _ hx))

/-- a chain is finite, hence acyclic: no node occurs twice -/
theorem chainIs_nodup {next : Nat → Ptr} {h : Ptr} {l : List Nat} (hc : ChainIs next h l) : l.Nodup := by
  induction hc with
  | nil => exact List.nodup_nil
  | @cons y l' hc' ih =>
    rw [List.nodup_cons]
    refine ⟨?_, ih⟩
    intro hy
    -- the chain from `y` would be both `y :: l'` and a proper suffix of `l'`
    have key : ∀ (p : Ptr) (m : List Nat), ChainIs next p m → y ∈ m → ∃ m', ChainIs next (Seen.node y) (y :: m') ∧ m'.length < m.length := by
      intro p m hm
      induction hm with
      | nil => intro h; cases h
      | @cons z m' hm' ih' =>
        intro hz
        by_cases hzy : z = y
        · subst hzy; exact ⟨m', ChainIs.cons hm', by simp⟩
        · have : y ∈ m' := by
            rcases List.mem_cons.1 hz with e | e
            · exact absurd e.symm hzy
            · exact e
          obtain ⟨m'', h1, h2⟩ := ih' this
          exact ⟨m'', h1, by simp; omega⟩
    obtain ⟨m', h1, h2⟩ := key _ _ hc' hy
    have := chainIs_unique h1 (ChainIs.cons hc')
    injection this with _ e
    rw [e] at h2; omega

/-- **push** (the successful CAS of `subscribe_check_ready`): a node whose `_next` holds the current head becomes the new head -/
theorem chainIs_push {next : Nat → Ptr} {h : Ptr} {l : List Nat} (hc : ChainIs next h l) (t : Nat) (ht : next t = h) :
    ChainIs next (Seen.node t) (t :: l) :=
  ChainIs.cons (ht ▸ hc)

/-- push, write-then-publish form: store the head into the `_next` of a node outside the chain, then make it the head -/
theorem chainIs_push_write {next : Nat → Ptr} {h : Ptr} {l : List Nat} (hc : ChainIs next h l) (t : Nat) (ht : t ∉ l) :
    ChainIs (upd next t h) (Seen.node t) (t :: l) :=
  chainIs_push (chainIs_frame hc t h ht) t (upd_same _ _ _)

/-- **pop** (one iteration of `resume_chain_lk`): `chain = y->_next; y->_next = nullptr` leaves the rest of the chain -/
theorem chainIs_pop {next : Nat → Ptr} {y : Nat} {l : List Nat} (hc : ChainIs next (Seen.node y) (y :: l)) :
    ChainIs (upd next y Seen.null) (next y) l := by
  obtain ⟨l', e, h'⟩ := chainIs_node hc
  injection e with _ e; subst e
  have hnd := chainIs_nodup hc
  rw [List.nodup_cons] at hnd
  exact chainIs_frame h' y _ hnd.1

/-- the executable reading of a chain: follow `_next` for at most `fuel` nodes -/
def follow (next : Nat → Ptr) : Nat → Ptr → List Nat
  | fuel + 1, Seen.node x => x :: follow next fuel (next x)
  | _, _ => []

theorem follow_of_chainIs {next : Nat → Ptr} {h : Ptr} {l : List Nat} (hc : ChainIs next h l) :
    ∀ fuel, l.length ≤ fuel → follow next fuel h = l := by
  induction hc with
  | nil => intro fuel _; cases fuel <;> rfl
  | @cons y l' _ ih =>
    intro fuel hf
    cases fuel with
    | zero => simp at hf
    | succ f =>
      simp only [follow]
      rw [ih f (by simpa using hf)]

theorem follow_congr {next next' : Nat → Ptr} : ∀ (fuel : Nat) (h : Ptr), (∀ x, x ∈ follow next fuel h → next' x = next x) →
    follow next' fuel h = follow next fuel h := by
  intro fuel
  induction fuel with
  | zero => intro h _; cases h <;> rfl
  | succ f ih =>
    intro h hag
    cases h with
    | null => rfl
    | ready => rfl
    | node x =>
      simp only [follow] at hag ⊢
      rw [hag x List.mem_cons_self, ih _ (fun z hz => hag z (List.mem_cons_of_mem _ hz))]

/-! ## (c) the abstraction function -/

/-- the walker's remaining actions, read off its locals: the blocking waiters and callbacks of the rest `l` of the chain are
handled while walking; the coroutines — those already collected in `ret`, then those of `l` — when the suspend point is flushed -/
def walkActs (c : Cfg) (t : Nat) (l ret : List Nat) : List Act :=
  (l.filter (fun x => wkOf c x = WK.sync ∨ wkOf c x = WK.cb)).map
      (fun x => if wkOf c x = WK.sync then Act.store x else Act.wake x)
  ++ ((l.filter (fun x => ¬ (wkOf c x = WK.sync ∨ wkOf c x = WK.cb))).foldl (collect c t) ret).map Act.wake

def pendActs : Option (Nat × Seen) → List Act
  | none => []
  | some (x, seen) => [Act.obsAfter x seen]

def absPc (c : Cfg) (next : Nat → Ptr) (t : Nat) : Pc → Chain.Pc
  | Pc.rClaim => Chain.Pc.rClaim
  | Pc.rFinLost => Chain.Pc.rFinLost
  | Pc.rResolve dt => Chain.Pc.rResolve dt
  | Pc.rWalk dt cur ret pend => Chain.Pc.rRun dt (pendActs pend ++ walkActs c t (follow next c.n cur) ret)
  | Pc.dArrive => Chain.Pc.dArrive
  | Pc.dBlocked => Chain.Pc.dBlocked
  | Pc.dFin => Chain.Pc.dFin
  | Pc.dLoad => Chain.Pc.dLoad
  | Pc.wLoad => Chain.Pc.wLoad
  | Pc.wCas _ => Chain.Pc.wCas (next t)
  | Pc.wFinParked => Chain.Pc.wFinParked
  | Pc.wWait => Chain.Pc.wWait
  | Pc.wBlocked => Chain.Pc.wBlocked
  | Pc.wRead _ => Chain.Pc.wRead
  | Pc.wRead2 seen => Chain.Pc.wRead2 seen
  | Pc.done => Chain.Pc.done

def absSlot (c : Cfg) (head : Ptr) (next : Nat → Ptr) : Slot :=
  if head = Seen.ready then Slot.ready else Slot.chain (follow next c.n head)

/-- **the abstraction function**: the list-level state a pointer-level state denotes — the slot's list is *read off the
`_next` fields*, the walker's remaining actions off its local pointer and collected handles, a subscriber's expected value
off its own `_next` field; `live` and `log` are forgotten -/
def abs (c : Cfg) (s : State) : Chain.State :=
  { owner := s.owner
    slot := absSlot c s.head s.next
    payload := s.payload
    flag := s.flag
    pc := fun t => absPc c s.next t (s.pc t)
    wins := s.wins
    winner := s.winner
    subscribed := s.subscribed
    woken := s.woken
    observed := s.observed }

/-! ## the walker's step against `Chain.runActs` -/

theorem needsLoad_eq (S : Chain.State) (k : WK) : Chain.needsLoad S k = needsLoad S.payload k := rfl

theorem obsOf_eq (S : Chain.State) (k : WK) (sn : Seen) : Chain.obsOf S k sn = obsOf S.payload k sn := by
  unfold Chain.obsOf obsOf; rfl

/-- the list-level state `S` with the pointer-level `flag` / `woken` / `observed` (all that `runActs` changes) -/
def lift (S : Chain.State) (s : State) : Chain.State :=
  { S with flag := s.flag, woken := s.woken, observed := s.observed }

@[simp] theorem lift_payload (S : Chain.State) (s : State) : (lift S s).payload = S.payload := rfl
@[simp] theorem lift_slot (S : Chain.State) (s : State) : (lift S s).slot = S.slot := rfl

theorem walkActs_nil (c : Cfg) (t : Nat) (ret : List Nat) : walkActs c t [] ret = ret.map Act.wake := by
  simp [walkActs]

theorem walkActs_cons_sync (c : Cfg) (t y : Nat) (l ret : List Nat) (h : wkOf c y = WK.sync) :
    walkActs c t (y :: l) ret = Act.store y :: walkActs c t l ret := by
  simp [walkActs, h]

theorem walkActs_cons_cb (c : Cfg) (t y : Nat) (l ret : List Nat) (_h1 : wkOf c y ≠ WK.sync) (h : wkOf c y = WK.cb) :
    walkActs c t (y :: l) ret = Act.wake y :: walkActs c t l ret := by
  simp [walkActs, h]

theorem walkActs_cons_coro (c : Cfg) (t y : Nat) (l ret : List Nat) (h1 : wkOf c y ≠ WK.sync) (h2 : wkOf c y ≠ WK.cb) :
    walkActs c t (y :: l) ret = walkActs c t l (collect c t ret y) := by
  simp [walkActs, h1, h2]

/-! ### the collected handles: `collect` keeps them in resumption order -/

theorem collect_perm (c : Cfg) (t : Nat) (ret : List Nat) (y : Nat) : (collect c t ret y).Perm (ret ++ [y]) := by
  unfold collect
  split
  · cases ret with
    | nil => exact List.Perm.refl _
    | cons h tl =>
      show (y :: (tl ++ [h])).Perm (h :: tl ++ [y])
      have h1 : (y :: (tl ++ [h])).Perm (y :: h :: tl) := List.Perm.cons y (List.perm_append_singleton h tl)
      exact h1.trans (List.perm_append_singleton y (h :: tl)).symm
  · exact List.Perm.refl _

theorem foldl_collect_perm (c : Cfg) (t : Nat) : ∀ (l ret : List Nat), (l.foldl (collect c t) ret).Perm (ret ++ l) := by
  intro l
  induction l with
  | nil => intro ret; simp
  | cons y l ih =>
    intro ret
    rw [List.foldl_cons]
    refine (ih (collect c t ret y)).trans ?_
    have := (collect_perm c t ret y).append_right l
    simpa using this

/-- handle by handle, `collect` builds the order in which the suspend point resumes what it holds: `Chain.resumeOrder` of the
collection order -/
theorem collect_foldl (c : Cfg) (t : Nat) : ∀ (l r : List Nat),
    l.foldl (collect c t) (Chain.resumeOrder c t r) = Chain.resumeOrder c t (r ++ l) := by
  intro l
  induction l with
  | nil => intro r; simp
  | cons y l ih =>
    intro r
    rw [List.foldl_cons]
    have hstep : collect c t (Chain.resumeOrder c t r) y = Chain.resumeOrder c t (r ++ [y]) := by
      unfold collect Chain.resumeOrder
      by_cases ha : c.aw t = true
      · simp only [ha, if_true]
        rw [Chain.awaitOrder_snoc]
        rcases List.eq_nil_or_concat r with e | ⟨r', a, e⟩
        · subst e; rfl
        · subst e
          rw [List.concat_eq_append, Chain.awaitOrder_snoc]
      · simp only [ha, Bool.false_eq_true, if_false]
    rw [hstep, ih (r ++ [y])]
    simp

/-- fields no walker step changes -/
structure SameShared (s r : State) : Prop where
  owner : r.owner = s.owner
  head : r.head = s.head
  payload : r.payload = s.payload
  pc : r.pc = s.pc
  wins : r.wins = s.wins
  winner : r.winner = s.winner
  subscribed : r.subscribed = s.subscribed

theorem SameShared.refl (s : State) : SameShared s s := ⟨rfl, rfl, rfl, rfl, rfl, rfl, rfl⟩

theorem SameShared.trans {a b d : State} (h1 : SameShared a b) (h2 : SameShared b d) : SameShared a d :=
  ⟨h2.owner.trans h1.owner, h2.head.trans h1.head, h2.payload.trans h1.payload, h2.pc.trans h1.pc,
   h2.wins.trans h1.wins, h2.winner.trans h1.winner, h2.subscribed.trans h1.subscribed⟩

/-- how the result of a walker step relates to `runActs` on the corresponding actions -/
structure WalkRel (c : Cfg) (t : Nat) (S : Chain.State) (s : State) (acts : List Act) (r : WalkRes) (l' : List Nat) : Prop where
  st : (Chain.runActs c t (lift S s) acts).1 = lift S r.s
  evs : (Chain.runActs c t (lift S s) acts).2.1 = r.evs
  rest : (Chain.runActs c t (lift S s) acts).2.2.1 = pendActs r.pend ++ walkActs c t l' r.ret
  stopped : (Chain.runActs c t (lift S s) acts).2.2.2 = r.stopped
  same : SameShared s r.s

theorem flush_sim (c : Cfg) (t : Nat) (S : Chain.State) : ∀ (ret : List Nat) (s : State),
    S.payload = s.payload → S.slot.seen = s.head →
    WalkRel c t S s (ret.map Act.wake) (flush c t s ret) [] ∧ (flush c t s ret).cur = Seen.null
      ∧ (flush c t s ret).s.next = s.next ∧ (flush c t s ret).s.log = s.log := by
  intro ret
  induction ret with
  | nil =>
    intro s _ _
    refine ⟨⟨rfl, rfl, ?_, rfl, SameShared.refl s⟩, rfl, rfl, rfl⟩
    simp [Chain.runActs, flush, pendActs, walkActs]
  | cons x rest ih =>
    intro s hp hh
    by_cases hn : needsLoad s.payload (wkOf c x) = true
    · have hR : Chain.runActs c t (lift S s) (List.map Act.wake (x :: rest)) =
          (lift S (resumeOf s x), [Ev.opLoadSlot t s.head], Act.obsAfter x s.head :: rest.map Act.wake, true) := by
        have hn' : Chain.needsLoad (lift S s) (wkOf c x) = true := by rw [needsLoad_eq, lift_payload, hp]; exact hn
        have hh' : (lift S s).slot.seen = s.head := hh
        simp only [List.map_cons, Chain.runActs, hn', if_true, hh']
        rfl
      have hF : flush c t s (x :: rest) =
          ⟨resumeOf s x, [Ev.opLoadSlot t s.head], Seen.null, rest, some (x, s.head), true⟩ := by
        simp only [flush, hn, if_true]
      rw [hF]
      refine ⟨⟨?_, ?_, ?_, ?_, ⟨rfl, rfl, rfl, rfl, rfl, rfl, rfl⟩⟩, rfl, rfl, rfl⟩
      · rw [hR]
      · rw [hR]
      · rw [hR]; simp [pendActs, walkActs]
      · rw [hR]
    · obtain ⟨ih1, ih2, ih3, ih4⟩ := ih (observe (resumeOf s x) x) hp hh
      have hR : Chain.runActs c t (lift S s) (List.map Act.wake (x :: rest)) =
          ((Chain.runActs c t (lift S (observe (resumeOf s x) x)) (rest.map Act.wake)).1,
           Ev.obs x (obsOf s.payload (wkOf c x) Seen.ready) :: (Chain.runActs c t (lift S (observe (resumeOf s x) x)) (rest.map Act.wake)).2.1,
           (Chain.runActs c t (lift S (observe (resumeOf s x) x)) (rest.map Act.wake)).2.2.1,
           (Chain.runActs c t (lift S (observe (resumeOf s x) x)) (rest.map Act.wake)).2.2.2) := by
        have hn' : Chain.needsLoad (lift S s) (wkOf c x) = false := by
          rw [needsLoad_eq, lift_payload, hp]; simpa using hn
        have ho : Chain.obsOf (lift S s) (wkOf c x) Seen.ready = obsOf s.payload (wkOf c x) Seen.ready := by
          rw [obsOf_eq, lift_payload, hp]
        simp only [List.map_cons, Chain.runActs, hn', ho, Bool.false_eq_true, if_false]
        rfl
      have hF : flush c t s (x :: rest) =
          { flush c t (observe (resumeOf s x) x) rest with
            evs := Ev.obs x (obsOf s.payload (wkOf c x) Seen.ready) :: (flush c t (observe (resumeOf s x) x) rest).evs } := by
        have hn2 : needsLoad s.payload (wkOf c x) = false := by simpa using hn
        simp only [flush, hn2, Bool.false_eq_true, if_false]
      rw [hF]
      refine ⟨⟨?_, ?_, ?_, ?_, SameShared.trans (b := observe (resumeOf s x) x) ⟨rfl, rfl, rfl, rfl, rfl, rfl, rfl⟩ ih1.same⟩, ih2, ih3, ih4⟩
      · rw [hR]; exact ih1.st
      · rw [hR]; simp only; rw [ih1.evs]
      · rw [hR]; exact ih1.rest
      · rw [hR]; exact ih1.stopped


theorem walk_null (c : Cfg) (t fuel : Nat) (s : State) (ret : List Nat) : walk c t fuel s Seen.null ret = flush c t s ret := by
  cases fuel <;> rfl

theorem walk_node (c : Cfg) (t fuel : Nat) (s : State) (y : Nat) (ret : List Nat) :
    walk c t (fuel + 1) s (Seen.node y) ret =
      if wkOf c y = WK.sync then
        ⟨{ unlink s t y with flag := upd s.flag y true, woken := upd s.woken y (s.woken y + 1) },
         [Ev.opStoreFlag t y], s.next y, ret, none, true⟩
      else if wkOf c y = WK.cb then
        if needsLoad s.payload (wkOf c y) then
          ⟨resumeOf (unlink s t y) y, [Ev.opLoadSlot t s.head], s.next y, ret, some (y, s.head), true⟩
        else
          { walk c t fuel (observe (resumeOf (unlink s t y) y) y) (s.next y) ret with
            evs := Ev.obs y (obsOf s.payload (wkOf c y) Seen.ready) :: (walk c t fuel (observe (resumeOf (unlink s t y) y) y) (s.next y) ret).evs }
      else
        walk c t fuel (unlink s t y) (s.next y) (collect c t ret y) := by
  rw [walk]

theorem unlink_next (s : State) (t y : Nat) : (unlink s t y).next = upd s.next y Seen.null := rfl

/-- **the walker's step refines `runActs`**: run from the loop head with local pointer `cur` denoting the list `l`, the
pointer-level walker performs exactly the list-level actions `walkActs c t l ret` up to the next operation, and what it
leaves in its locals denotes the remaining actions; it writes `_next` of visited nodes only -/
theorem walk_sim (c : Cfg) (t : Nat) (S : Chain.State) : ∀ (l : List Nat) (fuel : Nat) (s : State) (cur : Ptr) (ret : List Nat),
    ChainIs s.next cur l → l.length ≤ fuel → S.payload = s.payload → S.slot.seen = s.head →
    ∃ l', WalkRel c t S s (walkActs c t l ret) (walk c t fuel s cur ret) l'
      ∧ ChainIs (walk c t fuel s cur ret).s.next (walk c t fuel s cur ret).cur l'
      ∧ (∃ pre, l = pre ++ l')
      ∧ (∀ x, x ∉ l → (walk c t fuel s cur ret).s.next x = s.next x) := by
  intro l
  induction l with
  | nil =>
    intro fuel s cur ret hc _ hp hh
    cases cur with
    | node y => obtain ⟨_, e, _⟩ := chainIs_node hc; cases e
    | ready => exact absurd hc chainIs_not_ready
    | null =>
      rw [walk_null, walkActs_nil]
      obtain ⟨h1, h2, h3, _⟩ := flush_sim c t S ret s hp hh
      refine ⟨[], h1, ?_, ⟨[], rfl⟩, ?_⟩
      · rw [h2]; exact ChainIs.nil
      · intro x _; rw [h3]
  | cons y l' ih =>
    intro fuel s cur ret hc hf hp hh
    cases cur with
    | null => have := chainIs_null hc; cases this
    | ready => exact absurd hc chainIs_not_ready
    | node z =>
      obtain ⟨l'', e, hc'⟩ := chainIs_node hc
      injection e with e1 e2
      subst e1; subst e2
      have hpop : ChainIs (unlink s t y).next (s.next y) l' := chainIs_pop hc
      cases fuel with
      | zero => simp at hf
      | succ f =>
        have hf' : l'.length ≤ f := by simpa using hf
        rw [walk_node]
        by_cases hs : wkOf c y = WK.sync
        · -- blocking waiter: `flag.store(true)`
          simp only [hs, if_true]
          rw [walkActs_cons_sync c t y l' ret hs]
          refine ⟨l', ⟨rfl, rfl, ?_, rfl, ⟨rfl, rfl, rfl, rfl, rfl, rfl, rfl⟩⟩, hpop, ⟨[y], rfl⟩, ?_⟩
          · simp [Chain.runActs, pendActs]
          · intro x hx
            have : x ≠ y := fun e => hx (e ▸ List.mem_cons_self)
            show upd s.next y Seen.null x = s.next x
            rw [upd_other _ _ _ _ this]
        · simp only [hs, if_false]
          by_cases hcb : wkOf c y = WK.cb
          · simp only [hcb, if_true]
            rw [walkActs_cons_cb c t y l' ret (by rw [hcb]; decide) hcb]
            by_cases hn : needsLoad s.payload WK.cb = true
            · -- callback whose `value()` performs the `pending()` load
              simp only [hn, if_true]
              have hn' : Chain.needsLoad (lift S s) (wkOf c y) = true := by
                rw [needsLoad_eq, lift_payload, hp, hcb]; exact hn
              have hh' : (lift S s).slot.seen = s.head := hh
              refine ⟨l', ⟨?_, ?_, ?_, ?_, ⟨rfl, rfl, rfl, rfl, rfl, rfl, rfl⟩⟩, hpop, ⟨[y], rfl⟩, ?_⟩
              · simp only [Chain.runActs, hn', if_true]; rfl
              · simp only [Chain.runActs, hn', if_true, hh']
              · simp only [Chain.runActs, hn', if_true, hh', pendActs]; rfl
              · simp only [Chain.runActs, hn', if_true]
              · intro x hx
                have : x ≠ y := fun e => hx (e ▸ List.mem_cons_self)
                show upd s.next y Seen.null x = s.next x
                rw [upd_other _ _ _ _ this]
            · -- callback that reads the result at once; the walk goes on
              have hn2 : needsLoad s.payload WK.cb = false := by simpa using hn
              simp only [hn2, Bool.false_eq_true, if_false]
              have hn' : Chain.needsLoad (lift S s) (wkOf c y) = false := by
                rw [needsLoad_eq, lift_payload, hp, hcb]; exact hn2
              have ho : Chain.obsOf (lift S s) (wkOf c y) Seen.ready = obsOf s.payload WK.cb Seen.ready := by
                rw [obsOf_eq, lift_payload, hp, hcb]
              obtain ⟨m, hm1, hm2, ⟨pre, hm3⟩, hm4⟩ := ih f (observe (resumeOf (unlink s t y) y) y) (s.next y) ret hpop hf' hp hh
              have hR : Chain.runActs c t (lift S s) (Act.wake y :: walkActs c t l' ret) =
                  ((Chain.runActs c t (lift S (observe (resumeOf (unlink s t y) y) y)) (walkActs c t l' ret)).1,
                   Ev.obs y (obsOf s.payload WK.cb Seen.ready) :: (Chain.runActs c t (lift S (observe (resumeOf (unlink s t y) y) y)) (walkActs c t l' ret)).2.1,
                   (Chain.runActs c t (lift S (observe (resumeOf (unlink s t y) y) y)) (walkActs c t l' ret)).2.2.1,
                   (Chain.runActs c t (lift S (observe (resumeOf (unlink s t y) y) y)) (walkActs c t l' ret)).2.2.2) := by
                simp only [Chain.runActs, hn', ho, Bool.false_eq_true, if_false]
                rfl
              refine ⟨m, ⟨?_, ?_, ?_, ?_, SameShared.trans (b := observe (resumeOf (unlink s t y) y) y) ⟨rfl, rfl, rfl, rfl, rfl, rfl, rfl⟩ hm1.same⟩,
                hm2, ⟨y :: pre, by rw [hm3]; rfl⟩, ?_⟩
              · rw [hR]; exact hm1.st
              · rw [hR]; simp only; rw [hm1.evs]
              · rw [hR]; exact hm1.rest
              · rw [hR]; exact hm1.stopped
              · intro x hx
                have hxy : x ≠ y := fun e => hx (e ▸ List.mem_cons_self)
                have hxl : x ∉ l' := fun m => hx (List.mem_cons_of_mem _ m)
                have := hm4 x hxl
                rw [this]
                show upd s.next y Seen.null x = s.next x
                rw [upd_other _ _ _ _ hxy]
          · -- coroutine: the handle is collected
            simp only [hcb, if_false]
            rw [walkActs_cons_coro c t y l' ret hs hcb]
            obtain ⟨m, hm1, hm2, ⟨pre, hm3⟩, hm4⟩ := ih f (unlink s t y) (s.next y) (collect c t ret y) hpop hf' hp hh
            refine ⟨m, ⟨hm1.st, hm1.evs, hm1.rest, hm1.stopped, SameShared.trans (b := unlink s t y) ⟨rfl, rfl, rfl, rfl, rfl, rfl, rfl⟩ hm1.same⟩,
              hm2, ⟨y :: pre, by rw [hm3]; rfl⟩, ?_⟩
            intro x hx
            have hxy : x ≠ y := fun e => hx (e ▸ List.mem_cons_self)
            have hxl : x ∉ l' := fun m => hx (List.mem_cons_of_mem _ m)
            rw [hm4 x hxl]
            show upd s.next y Seen.null x = s.next x
            rw [upd_other _ _ _ _ hxy]


/-! ## liveness bookkeeping of the walker -/

/-- a node whose waiter has not been released is live -/
def Alive (s : State) : Prop := ∀ x, s.woken x = 0 → s.live x = true

theorem alive_flush (c : Cfg) (t : Nat) : ∀ (ret : List Nat) (s : State), Alive s → Alive (flush c t s ret).s := by
  intro ret
  induction ret with
  | nil => intro s h; exact h
  | cons x rest ih =>
    intro s h
    have hres : Alive (resumeOf s x) := by
      intro z hz
      by_cases hzx : z = x
      · subst hzx; simp [resumeOf] at hz
      · simp only [resumeOf, upd_other _ _ _ _ hzx] at hz ⊢; exact h z hz
    simp only [flush]
    split
    · exact hres
    · exact ih _ hres

theorem alive_walk (c : Cfg) (t : Nat) : ∀ (fuel : Nat) (s : State) (cur : Ptr) (ret : List Nat),
    Alive s → Alive (walk c t fuel s cur ret).s := by
  intro fuel
  induction fuel with
  | zero =>
    intro s cur ret h
    cases cur with
    | null => rw [walk_null]; exact alive_flush c t ret s h
    | ready => exact alive_flush c t ret s h
    | node y => exact h
  | succ f ih =>
    intro s cur ret h
    cases cur with
    | null => rw [walk_null]; exact alive_flush c t ret s h
    | ready => exact alive_flush c t ret s h
    | node y =>
      have hres : Alive (resumeOf (unlink s t y) y) := by
        intro z hz
        by_cases hzy : z = y
        · subst hzy; simp [resumeOf] at hz
        · simp only [resumeOf, upd_other _ _ _ _ hzy] at hz ⊢; exact h z hz
      rw [walk_node]
      split
      · intro z hz
        by_cases hzy : z = y
        · subst hzy; simp at hz
        · simp only [upd_other _ _ _ _ hzy] at hz; exact h z hz
      · split
        · split
          · exact hres
          · exact ih _ _ _ hres
        · exact ih _ _ _ h

theorem flush_log (c : Cfg) (t : Nat) : ∀ (ret : List Nat) (s : State), (flush c t s ret).s.log = s.log := by
  intro ret
  induction ret with
  | nil => intro s; rfl
  | cons x rest ih =>
    intro s
    simp only [flush]
    split
    · rfl
    · exact ih _

/-- accesses of one walker step: all by the walker `t`, to nodes of the chain it walks, each of them live and published at
the moment of the access — the walker reads `y->_next`, clears it and reads the resumption target *before* `y->resume()`, and
never comes back to `y` -/
theorem walk_log (c : Cfg) (t : Nat) : ∀ (l : List Nat) (fuel : Nat) (s : State) (cur : Ptr) (ret : List Nat),
    ChainIs s.next cur l → l.length ≤ fuel → (∀ x, x ∈ l → s.live x = true ∧ s.subscribed x = true) →
    ∀ a, a ∈ (walk c t fuel s cur ret).s.log → a ∈ s.log ∨ (a.agent = t ∧ a.node ∈ l ∧ a.live = true ∧ a.pub = true) := by
  intro l
  induction l with
  | nil =>
    intro fuel s cur ret hc _ _ a ha
    cases cur with
    | node y => obtain ⟨_, e, _⟩ := chainIs_node hc; cases e
    | ready => exact absurd hc chainIs_not_ready
    | null =>
      rw [walk_null, flush_log] at ha
      exact Or.inl ha
  | cons y l' ih =>
    intro fuel s cur ret hc hf hl a ha
    cases cur with
    | null => have := chainIs_null hc; cases this
    | ready => exact absurd hc chainIs_not_ready
    | node z =>
      obtain ⟨l'', e, hc'⟩ := chainIs_node hc
      injection e with e1 e2
      subst e1; subst e2
      have hpop : ChainIs (unlink s t y).next (s.next y) l' := chainIs_pop hc
      have hnd := chainIs_nodup hc
      rw [List.nodup_cons] at hnd
      obtain ⟨hly, hsy⟩ := hl y List.mem_cons_self
      -- the three accesses of `unlink`
      have hun : ∀ a, a ∈ (unlink s t y).log → a ∈ s.log ∨ (a.agent = t ∧ a.node ∈ y :: l' ∧ a.live = true ∧ a.pub = true) := by
        intro a ha
        simp only [unlink, acc, List.mem_append, List.mem_singleton] at ha
        rcases ha with ((ha | ha) | ha) | ha
        · exact Or.inl ha
        · right; subst ha; exact ⟨rfl, List.mem_cons_self, hly, hsy⟩
        · right; subst ha; exact ⟨rfl, List.mem_cons_self, hly, hsy⟩
        · right; subst ha; exact ⟨rfl, List.mem_cons_self, hly, hsy⟩
      have hrest : ∀ s' : State, s'.live = upd s.live y false ∨ s'.live = s.live → s'.subscribed = s.subscribed →
          ∀ x, x ∈ l' → s'.live x = true ∧ s'.subscribed x = true := by
        intro s' h1 h2 x hx
        have hxy : x ≠ y := fun e => hnd.1 (e ▸ hx)
        obtain ⟨a1, a2⟩ := hl x (List.mem_cons_of_mem _ hx)
        rw [h2]
        rcases h1 with h1 | h1
        · rw [h1, upd_other _ _ _ _ hxy]; exact ⟨a1, a2⟩
        · rw [h1]; exact ⟨a1, a2⟩
      cases fuel with
      | zero => simp at hf
      | succ f =>
        have hf' : l'.length ≤ f := by simpa using hf
        rw [walk_node] at ha
        split at ha
        · exact hun a ha
        · split at ha
          · split at ha
            · exact hun a ha
            · rcases ih f (observe (resumeOf (unlink s t y) y) y) (s.next y) ret hpop hf' (hrest _ (Or.inl rfl) rfl) a ha with h | ⟨h1, h2, h3, h4⟩
              · exact hun a h
              · exact Or.inr ⟨h1, List.mem_cons_of_mem _ h2, h3, h4⟩
          · rcases ih f (unlink s t y) (s.next y) (collect c t ret y) hpop hf' (hrest _ (Or.inr rfl) rfl) a ha with h | ⟨h1, h2, h3, h4⟩
            · exact hun a h
            · exact Or.inr ⟨h1, List.mem_cons_of_mem _ h2, h3, h4⟩

/-! ## `abs` commutes with the elementary updates -/

theorem abs_pc (c : Cfg) (s : State) (t : Nat) : (abs c s).pc t = absPc c s.next t (s.pc t) := rfl

theorem chain_state_ext {a b : Chain.State} (h1 : a.owner = b.owner) (h2 : a.slot = b.slot) (h3 : a.payload = b.payload)
    (h4 : a.flag = b.flag) (h5 : a.pc = b.pc) (h6 : a.wins = b.wins) (h7 : a.winner = b.winner)
    (h8 : a.subscribed = b.subscribed) (h9 : a.woken = b.woken) (h10 : a.observed = b.observed) : a = b := by
  cases a; cases b; simp_all

theorem absPc_done_iff (c : Cfg) (nx : Nat → Ptr) (t : Nat) (p : Pc) : absPc c nx t p = Chain.Pc.done ↔ p = Pc.done := by
  cases p <;> simp [absPc]

theorem absPc_done_beq (c : Cfg) (nx : Nat → Ptr) (t : Nat) (p : Pc) : (absPc c nx t p == Chain.Pc.done) = (p == Pc.done) := by
  rw [Bool.eq_iff_iff]; simp only [beq_iff_eq]; exact absPc_done_iff c nx t p

theorem resolversDone_eq (c : Cfg) (s : State) : resolversDone c s = Chain.resolversDone c (abs c s) := by
  unfold resolversDone Chain.resolversDone
  congr 1
  funext i
  cases c.kind i <;> simp only [abs_pc, absPc_done_beq]

/-- **enabledness agrees** -/
theorem enabled_eq (c : Cfg) (s : State) (t : Nat) : enabled c s t = Chain.enabled c (abs c s) t := by
  unfold enabled Chain.enabled
  rw [abs_pc]
  cases s.pc t <;> simp only [absPc, resolversDone_eq] <;> rfl

/-- `absPc` of an agent does not change when the `_next` fields it depends on do not -/
theorem absPc_frame (c : Cfg) (nx nx' : Nat → Ptr) (i : Nat) (p : Pc)
    (h1 : ∀ f, p = Pc.wCas f → nx' i = nx i)
    (h2 : ∀ dt cur ret pend, p = Pc.rWalk dt cur ret pend → follow nx' c.n cur = follow nx c.n cur) :
    absPc c nx' i p = absPc c nx i p := by
  cases p <;> simp only [absPc]
  · rw [h2 _ _ _ _ rfl]
  · rw [h1 _ rfl]

/-- the `pc` component of `abs` after agent `t` moved to `p` (and possibly wrote `_next` fields nobody else's abstraction
depends on) -/
theorem abs_pc_step (c : Cfg) (nx nx' : Nat → Ptr) (pcs : Nat → Pc) (t : Nat) (p : Pc)
    (hfr : ∀ i, i ≠ t → absPc c nx' i (pcs i) = absPc c nx i (pcs i)) :
    (fun i => absPc c nx' i (upd pcs t p i)) = upd (fun i => absPc c nx i (pcs i)) t (absPc c nx' t p) := by
  funext i
  by_cases hi : i = t
  · subst hi; simp
  · rw [upd_other _ _ _ _ hi, upd_other _ _ _ _ hi]; exact hfr i hi

theorem abs_setPc (c : Cfg) (s : State) (t : Nat) (p : Pc) :
    abs c (setPc s t p) = Chain.setPc (abs c s) t (absPc c s.next t p) := by
  apply chain_state_ext <;> try rfl
  exact abs_pc_step c s.next s.next s.pc t p (fun _ _ => rfl)

theorem abs_acc (c : Cfg) (s : State) (t y : Nat) (f : Field) (w : Bool) : abs c (acc s t y f w) = abs c s := rfl
theorem abs_die (c : Cfg) (s : State) (x : Nat) : abs c (die s x) = abs c s := rfl
theorem abs_observe (c : Cfg) (s : State) (x : Nat) :
    abs c (observe s x) = { abs c s with observed := upd (abs c s).observed x ((abs c s).observed x + 1) } := rfl

theorem abs_init (c : Cfg) : abs c (init c) = Chain.init c := by
  apply chain_state_ext <;> try rfl
  · show absSlot c Seen.null _ = _
    unfold absSlot
    cases hn : c.n <;> simp [follow] <;> rfl
  · funext i
    show absPc c _ i (if i < c.n then initPc (c.kind i) else Pc.done) = if i < c.n then Chain.initPc (c.kind i) else Chain.Pc.done
    split
    · cases c.kind i <;> rfl
    · rfl

/-! ## (b) the structural invariant -/

/-- the pointer structure of a reachable state -/
structure Struct (c : Cfg) (s : State) : Prop where
  /-- before the exchange the slot heads a well-formed chain (and `follow` reads it completely) -/
  chain : s.head ≠ Seen.ready → ChainIs s.next s.head (follow s.next c.n s.head)
  /-- the walker's local pointer heads a well-formed chain -/
  walk : ∀ t dt cur ret pend, s.pc t = Pc.rWalk dt cur ret pend → ChainIs s.next cur (follow s.next c.n cur)
  /-- `assert(this->_next == nullptr)` at the entry of `subscribe_check_ready` -/
  fresh : ∀ t, s.pc t = Pc.wLoad → s.next t = Seen.null
  /-- the CAS is never attempted with expected value `ready` -/
  casnext : ∀ t f, s.pc t = Pc.wCas f → s.next t ≠ Seen.ready
  /-- the refused path is taken by unpublished nodes only -/
  refused : ∀ t, s.pc t = Pc.wRead true → s.subscribed t = false
  /-- a node whose waiter has not been released is live -/
  alive : Alive s

/-- the invariant of reachable pointer-level states: the structure of the pointers, and the list-level invariant of the abstraction -/
structure PInv (c : Cfg) (s : State) : Prop where
  base : Chain.Inv c (abs c s)
  str : Struct c s

theorem struct_init (c : Cfg) : Struct c (init c) := by
  refine ⟨?_, ?_, ?_, ?_, ?_, ?_⟩
  · intro _
    show ChainIs _ Seen.null (follow _ c.n Seen.null)
    cases c.n <;> exact ChainIs.nil
  · intro t dt cur ret pend h
    simp only [init] at h
    split at h
    · cases hk : c.kind t <;> simp [initPc, hk] at h
    · cases h
  · intro _ _; rfl
  · intro t f _; simp [init]
  · intro _ _; rfl
  · intro _ _; rfl

theorem pinv_init (c : Cfg) : PInv c (init c) := ⟨by rw [abs_init]; exact Chain.inv_init c, struct_init c⟩

/-! ### facts the invariant provides -/

theorem absSlot_ready_iff (c : Cfg) (s : State) : (abs c s).slot = Slot.ready ↔ s.head = Seen.ready := by
  show absSlot c s.head s.next = Slot.ready ↔ _
  unfold absSlot
  by_cases h : s.head = Seen.ready <;> simp [h]

theorem absSlot_chain (c : Cfg) (s : State) (h : s.head ≠ Seen.ready) :
    (abs c s).slot = Slot.chain (follow s.next c.n s.head) := by
  show absSlot c s.head s.next = _
  unfold absSlot; simp [h]

theorem len_le (c : Cfg) (l : List Nat) (h1 : l.Nodup) (h2 : ∀ x, x ∈ l → x < c.n) : l.length ≤ c.n := by
  have := List.Nodup.length_le_of_subset h1 (l₂ := List.range c.n) (fun x hx => List.mem_range.2 (h2 x hx))
  simpa using this

theorem cntW_walkActs (c : Cfg) (t x : Nat) (l ret : List Nat) : Chain.cntW x (walkActs c t l ret) = l.count x + ret.count x := by
  unfold walkActs
  rw [Chain.cntW_append, Chain.cntW_wake_perm x (foldl_collect_perm c t _ ret),
    List.map_append, Chain.cntW_append, Chain.cntW_map_filter, Chain.cntW_map_filter]
  · have hret : Chain.cntW x (ret.map Act.wake) = ret.count x := by
      induction ret with
      | nil => rfl
      | cons a r ih =>
        simp only [List.map_cons, Chain.cntW_wake, ih, List.count_cons]
        by_cases h : a = x <;> simp [h] <;> omega
    rw [hret]
    by_cases h1 : wkOf c x = WK.sync <;> by_cases h2 : wkOf c x = WK.cb <;> simp [h1, h2] <;> omega
  · intro y r; rfl
  · intro y r; split <;> rfl

theorem cntW_pendActs (x : Nat) (pend : Option (Nat × Seen)) : Chain.cntW x (pendActs pend) = 0 := by
  cases pend with
  | none => rfl
  | some p => rfl

section facts
variable {c : Cfg} {s : State} (h : PInv c s)
include h

theorem PInv.lt_of_sub {x : Nat} (hx : s.subscribed x = true) : x < c.n ∧ Chain.isW c x = true := by
  have := (h.base.sub x hx).1
  exact ⟨((Chain.isW_iff c x).1 this).1, this⟩

theorem PInv.lt_of_pc {t : Nat} (hpc : s.pc t ≠ Pc.done) : t < c.n := by
  by_cases ht : t < c.n
  · exact ht
  · have := h.base.range t (by omega)
    rw [abs_pc, absPc_done_iff] at this
    exact absurd this hpc

/-- an agent that is still subscribing, or took the refused path, is not in any chain -/
theorem PInv.unsub {t : Nat} (hpc : s.pc t = Pc.wLoad ∨ (∃ f, s.pc t = Pc.wCas f) ∨ s.pc t = Pc.wRead true) :
    s.subscribed t = false := by
  rcases hpc with hpc | ⟨f, hpc⟩ | hpc
  · cases hs : s.subscribed t
    · rfl
    · have := (h.base.sub t hs).2
      rw [abs_pc, hpc] at this
      split at this <;> simp [absPc, Chain.afterWait] at this
  · cases hs : s.subscribed t
    · rfl
    · have := (h.base.sub t hs).2
      rw [abs_pc, hpc] at this
      split at this <;> simp [absPc, Chain.afterWait] at this
  · exact h.str.refused t hpc

/-- chain phase: the nodes of the slot's chain are the subscribed waiters, none released yet -/
theorem PInv.chain_facts (hh : s.head ≠ Seen.ready) :
    ChainIs s.next s.head (follow s.next c.n s.head) ∧
    (∀ x, (follow s.next c.n s.head).count x = if s.subscribed x = true then 1 else 0) ∧
    (∀ x, s.woken x = 0) ∧ (∀ t dt cur ret pend, s.pc t ≠ Pc.rWalk dt cur ret pend) := by
  have hsl := absSlot_chain c s hh
  refine ⟨h.str.chain hh, h.base.chainW _ hsl, fun x => ((h.base.chain_phase _ hsl).2.1 x).1, ?_⟩
  intro t dt cur ret pend hpc
  have hpc' : (abs c s).pc t = Chain.Pc.rRun dt (pendActs pend ++ walkActs c t (follow s.next c.n cur) ret) := by
    rw [abs_pc, hpc]; rfl
  have := (Chain.ready_of_run c t (abs c s) h.base dt _ hpc').1
  rw [hsl] at this; cases this

/-- walk phase: the slot is `ready`, `t` is the winner, and every subscribed waiter is either released or occurs exactly
once in the rest of the chain or among the collected handles -/
theorem PInv.walk_facts {t : Nat} {dt : Bool} {cur : Ptr} {ret : List Nat} {pend : Option (Nat × Seen)}
    (hpc : s.pc t = Pc.rWalk dt cur ret pend) :
    s.head = Seen.ready ∧ s.winner = some t ∧ ChainIs s.next cur (follow s.next c.n cur) ∧
    (∀ x, s.woken x + ((follow s.next c.n cur).count x + ret.count x) = if s.subscribed x = true then 1 else 0) := by
  have hpc' : (abs c s).pc t = Chain.Pc.rRun dt (pendActs pend ++ walkActs c t (follow s.next c.n cur) ret) := by
    rw [abs_pc, hpc]; rfl
  obtain ⟨hs, hw⟩ := Chain.ready_of_run c t (abs c s) h.base dt _ hpc'
  refine ⟨(absSlot_ready_iff c s).1 hs, hw, h.str.walk t dt cur ret pend hpc, ?_⟩
  intro x
  have := h.base.readyW hs t hw x
  rw [hpc'] at this
  simp only [Chain.actsOf, Chain.cntW_append, cntW_pendActs, cntW_walkActs, Nat.zero_add] at this
  exact this

theorem PInv.walker_unique {t t' : Nat} {dt dt' : Bool} {cur cur' : Ptr} {ret ret' : List Nat} {pend pend' : Option (Nat × Seen)}
    (hpc : s.pc t = Pc.rWalk dt cur ret pend) (hpc' : s.pc t' = Pc.rWalk dt' cur' ret' pend') : t' = t := by
  have h1 := (h.walk_facts hpc).2.1
  have h2 := (h.walk_facts hpc').2.1
  rw [h1] at h2; injection h2 with h2; exact h2.symm

end facts

/-! ## (c) the one-step simulation -/

theorem abs_claim (c : Cfg) (s : State) (t : Nat) (p : Pc) :
    abs c { setPc s t p with owner := false, wins := s.wins + 1, winner := some t } =
      { Chain.setPc (abs c s) t (absPc c s.next t p) with owner := false, wins := (abs c s).wins + 1, winner := some t } := by
  apply chain_state_ext <;> try rfl
  exact abs_pc_step c s.next s.next s.pc t p (fun _ _ => rfl)

theorem abs_dtorLoad (c : Cfg) (s : State) (t : Nat) :
    abs c (dtorLoad s t).1 = (Chain.dtorLoad (abs c s) t).1 ∧ (dtorLoad s t).2 = (Chain.dtorLoad (abs c s) t).2 := by
  unfold dtorLoad Chain.dtorLoad
  have ho : (abs c s).owner = s.owner := rfl
  rw [ho]
  split
  · exact ⟨abs_claim c s t _, rfl⟩
  · exact ⟨abs_setPc c s t _, rfl⟩

theorem abs_ddefClaim (c : Cfg) (s : State) (t : Nat) :
    abs c (ddefClaim s t).1 = (Chain.ddefClaim (abs c s) t).1 ∧ (ddefClaim s t).2 = (Chain.ddefClaim (abs c s) t).2 := by
  unfold ddefClaim Chain.ddefClaim
  have ho : (abs c s).owner = s.owner := rfl
  rw [ho]
  split
  · exact ⟨abs_claim c s t _, rfl⟩
  · exact ⟨abs_setPc c s t _, rfl⟩

theorem abs_dtorEnter (c : Cfg) (s : State) (t : Nat) :
    abs c (dtorEnter c s t).1 = (Chain.dtorEnter c (abs c s) t).1 ∧ (dtorEnter c s t).2 = (Chain.dtorEnter c (abs c s) t).2 := by
  unfold dtorEnter Chain.dtorEnter
  cases c.kind t <;> first | exact abs_ddefClaim c s t | exact abs_dtorLoad c s t

theorem abs_finishRun (c : Cfg) (s : State) (t : Nat) (dt : Bool) (evs : List Ev) :
    abs c (finishRun c s t dt evs).1 = (Chain.finishRun c (abs c s) t dt evs).1
      ∧ (finishRun c s t dt evs).2 = (Chain.finishRun c (abs c s) t dt evs).2 := by
  unfold finishRun Chain.finishRun
  cases dt
  · cases c.kind t
    · exact ⟨abs_setPc c s t _, rfl⟩
    · exact ⟨abs_setPc c s t _, rfl⟩
    · exact ⟨abs_setPc c s t _, rfl⟩
    · refine ⟨(abs_dtorLoad c s t).1, ?_⟩
      show evs ++ (dtorLoad s t).2 = evs ++ (Chain.dtorLoad (abs c s) t).2
      rw [(abs_dtorLoad c s t).2]
  · exact ⟨abs_setPc c s t _, rfl⟩

theorem walkActs_build (c : Cfg) (t : Nat) (l : List Nat) : walkActs c t l [] = Chain.buildActs c t l := by
  have h := collect_foldl c t (l.filter (fun x => ¬ (wkOf c x = WK.sync ∨ wkOf c x = WK.cb))) []
  have h0 : Chain.resumeOrder c t [] = [] := by unfold Chain.resumeOrder Chain.awaitOrder; simp
  rw [h0, List.nil_append] at h
  unfold walkActs Chain.buildActs
  rw [h]

section
variable {c : Cfg} {s : State} (h : PInv c s)
include h

/-- what an atomic operation on the slot observes is the head pointer -/
theorem PInv.abs_seen : (abs c s).slot.seen = s.head := by
  by_cases hh : s.head = Seen.ready
  · rw [(absSlot_ready_iff c s).2 hh, hh]; rfl
  · rw [absSlot_chain c s hh]
    have key : ∀ (hd : Ptr) (l : List Nat), ChainIs s.next hd l → (Slot.chain l).seen = hd := by
      intro hd l hc; cases hc <;> rfl
    exact key _ _ (h.str.chain hh)

theorem PInv.not_mem_chain {t : Nat} (hh : s.head ≠ Seen.ready) (ht : s.subscribed t = false) :
    t ∉ follow s.next c.n s.head := by
  have := (h.chain_facts hh).2.1 t
  rw [ht] at this
  simp only [Bool.false_eq_true, if_false] at this
  exact List.count_eq_zero.1 this

theorem PInv.not_mem_walk {w t : Nat} {dt : Bool} {cur : Ptr} {ret : List Nat} {pend : Option (Nat × Seen)}
    (hpc : s.pc w = Pc.rWalk dt cur ret pend) (ht : s.subscribed t = false) : t ∉ follow s.next c.n cur := by
  have := (h.walk_facts hpc).2.2.2 t
  rw [ht] at this
  simp only [Bool.false_eq_true, if_false] at this
  exact List.count_eq_zero.1 (by omega)

/-- writing the `_next` field of an unpublished node changes nobody else's abstraction -/
theorem PInv.absPc_frame_unsub {t : Nat} (ht : s.subscribed t = false) (v : Ptr) (i : Nat) (hi : i ≠ t) :
    absPc c (upd s.next t v) i (s.pc i) = absPc c s.next i (s.pc i) := by
  apply absPc_frame
  · intro _ _; exact upd_other _ _ _ _ hi
  · intro dt cur ret pend hpc
    apply follow_congr
    intro x hx
    have : x ≠ t := fun e => h.not_mem_walk hpc ht (e ▸ hx)
    exact upd_other _ _ _ _ this

theorem PInv.chain_lt (hh : s.head ≠ Seen.ready) (x : Nat) (hx : x ∈ follow s.next c.n s.head) : x < c.n := by
  have := (h.chain_facts hh).2.1 x
  have hpos : 0 < (follow s.next c.n s.head).count x := List.count_pos_iff.2 hx
  split at this
  · exact (h.lt_of_sub ‹_›).1
  · omega

end

theorem sim_readStep (c : Cfg) (s' : State) (t : Nat) (hseen : (abs c s').slot.seen = s'.head) :
    abs c (readStep c s' t).1 = (Chain.readStep c (abs c s') t).1 ∧ (readStep c s' t).2 = (Chain.readStep c (abs c s') t).2 := by
  unfold readStep Chain.readStep
  rw [needsLoad_eq, hseen]
  have hp : (abs c s').payload = s'.payload := rfl
  rw [hp]
  split
  · exact ⟨abs_setPc c s' t _, rfl⟩
  · refine ⟨?_, ?_⟩
    · rw [abs_observe, abs_setPc]; rfl
    · rw [obsOf_eq]; rfl

/-- `_next = nullptr` on the refused path is invisible at list level -/
theorem abs_clearNext (c : Cfg) (s : State) (h : PInv c s) (t : Nat) (hpc : s.pc t = Pc.wRead true) :
    abs c (clearNext s t) = abs c s := by
  have hu := h.unsub (Or.inr (Or.inr hpc))
  apply chain_state_ext <;> try rfl
  · show absSlot c s.head (upd s.next t Seen.null) = absSlot c s.head s.next
    unfold absSlot
    split
    · rfl
    · rename_i hh
      congr 1
      apply follow_congr
      intro x hx
      have : x ≠ t := fun e => h.not_mem_chain hh hu (e ▸ hx)
      exact upd_other _ _ _ _ this
  · funext i
    show absPc c (upd s.next t Seen.null) i (s.pc i) = absPc c s.next i (s.pc i)
    by_cases hi : i = t
    · subst hi; rw [hpc]; rfl
    · exact h.absPc_frame_unsub hu _ i hi

theorem sim_simple (c : Cfg) (s : State) (h : PInv c s) (t : Nat)
    (hpc : ∀ dt cur ret pend, s.pc t ≠ Pc.rWalk dt cur ret pend) (hpc2 : ∀ f, s.pc t ≠ Pc.wCas f) :
    abs c (pstep c s t).1 = (Chain.astep c (abs c s) t).1 ∧ (pstep c s t).2 = (Chain.astep c (abs c s) t).2 := by
  unfold pstep Chain.astep
  rw [abs_pc]
  have ho : (abs c s).owner = s.owner := rfl
  have hf : (abs c s).flag = s.flag := rfl
  cases hp : s.pc t with
  | done => exact ⟨rfl, rfl⟩
  | rClaim =>
    simp only [absPc, ho]
    split
    · exact ⟨abs_claim c s t _, rfl⟩
    · exact ⟨abs_setPc c s t _, rfl⟩
  | rFinLost => exact ⟨abs_setPc c s t _, rfl⟩
  | rResolve dt =>
    simp only [absPc]
    have hpc' : (abs c s).pc t = Chain.Pc.rResolve dt := by rw [abs_pc, hp]; rfl
    obtain ⟨l, hl⟩ := Chain.chain_of_resolve c t (abs c s) h.base dt hpc'
    have hh : s.head ≠ Seen.ready := by
      intro e; rw [(absSlot_ready_iff c s).2 e] at hl; cases hl
    have hl' := absSlot_chain c s hh
    unfold resolveStep
    refine ⟨?_, ?_⟩
    · apply chain_state_ext <;> try rfl
      · show (fun i => absPc c s.next i (upd s.pc t (Pc.rWalk dt s.head [] none) i)) = upd (abs c s).pc t _
        rw [abs_pc_step c s.next s.next s.pc t _ (fun _ _ => rfl)]
        simp only [absPc, pendActs, List.nil_append, walkActs_build, hl', Chain.chainOf]
        rfl
    · show [Ev.opXchgSlot t s.head] = [Ev.opXchgSlot t (abs c s).slot.seen]
      rw [h.abs_seen]
  | rWalk dt cur ret pend => exact absurd hp (hpc _ _ _ _)
  | dArrive =>
    simp only [absPc, resolversDone_eq]
    split
    · exact abs_dtorEnter c s t
    · exact ⟨abs_setPc c s t _, rfl⟩
  | dBlocked => exact abs_dtorEnter c s t
  | dLoad => exact abs_dtorLoad c s t
  | dFin => exact ⟨abs_setPc c s t _, rfl⟩
  | wLoad =>
    simp only [absPc]
    by_cases hh : s.head = Seen.ready
    · have := (absSlot_ready_iff c s).2 hh
      rw [if_pos hh, if_pos this]
      exact ⟨abs_setPc c s t _, rfl⟩
    · have hne : (abs c s).slot ≠ Slot.ready := fun e => hh ((absSlot_ready_iff c s).1 e)
      rw [if_neg hh, if_neg hne]
      refine ⟨?_, by rw [h.abs_seen]⟩
      rw [abs_setPc]
      simp only [absPc, h.str.fresh t hp]
  | wCas f => exact absurd hp (hpc2 _)
  | wFinParked => exact ⟨abs_setPc c s t _, rfl⟩
  | wWait =>
    simp only [absPc, hf]
    split
    · exact ⟨by rw [abs_die, abs_setPc]; rfl, rfl⟩
    · exact ⟨abs_setPc c s t _, rfl⟩
  | wBlocked => exact ⟨by rw [abs_die, abs_setPc]; rfl, rfl⟩
  | wRead clr =>
    simp only [absPc]
    cases clr with
    | false => exact sim_readStep c s t h.abs_seen
    | true =>
      have he := abs_clearNext c s h t hp
      have := sim_readStep c (clearNext s t) t (by rw [he]; exact h.abs_seen)
      rw [he] at this
      exact this
  | wRead2 sn =>
    simp only [absPc]
    unfold readStep2 Chain.readStep2
    refine ⟨?_, ?_⟩
    · rw [abs_observe, abs_setPc]; rfl
    · rw [obsOf_eq]; rfl


/-- `subscribe_check_ready`'s CAS against the list-level push -/
theorem sim_cas (c : Cfg) (s : State) (h : PInv c s) (t : Nat) (f : Bool) (hp : s.pc t = Pc.wCas f) :
    abs c (casStep c s t f).1 = (Chain.astep c (abs c s) t).1 ∧ (casStep c s t f).2 = (Chain.astep c (abs c s) t).2 := by
  have hu := h.unsub (Or.inr (Or.inl ⟨f, hp⟩))
  unfold Chain.astep
  rw [abs_pc, hp]
  simp only [absPc]
  by_cases hh : s.head = Seen.ready
  · -- refused
    have hne : s.head ≠ s.next t := by rw [hh]; exact fun e => h.str.casnext t f hp e.symm
    rw [(absSlot_ready_iff c s).2 hh]
    dsimp only
    unfold casStep
    rw [if_neg hne, if_pos hh]
    refine ⟨?_, rfl⟩
    apply chain_state_ext <;> try rfl
    · show absSlot c s.head (upd s.next t Seen.ready) = absSlot c s.head s.next
      unfold absSlot; rw [if_pos hh, if_pos hh]
    · exact abs_pc_step c s.next (upd s.next t Seen.ready) s.pc t (Pc.wRead true) (h.absPc_frame_unsub hu _)
  · have hsl := absSlot_chain c s hh
    have hseen : (Slot.chain (follow s.next c.n s.head)).seen = s.head := by
      have := h.abs_seen; rwa [hsl] at this
    have hc := h.str.chain hh
    rw [hsl]
    simp only [hseen]
    unfold casStep
    by_cases he : s.head = s.next t
    · -- success: push
      rw [if_pos he, if_pos he]
      have hpush := chainIs_push hc t he.symm
      have hlen : (t :: follow s.next c.n s.head).length ≤ c.n := by
        apply len_le c _ (chainIs_nodup hpush)
        intro x hx
        rcases List.mem_cons.1 hx with e | e
        · rw [e]; exact h.lt_of_pc (by rw [hp]; simp)
        · exact h.chain_lt hh x e
      refine ⟨?_, rfl⟩
      apply chain_state_ext <;> try rfl
      · show absSlot c (Seen.node t) s.next = Slot.chain (t :: follow s.next c.n s.head)
        unfold absSlot
        rw [if_neg (by simp), follow_of_chainIs hpush c.n hlen]
      · show (fun i => absPc c s.next i (upd s.pc t (if wkOf c t = WK.sync then Pc.wWait else Pc.wFinParked) i)) = upd (abs c s).pc t _
        rw [abs_pc_step c s.next s.next s.pc t _ (fun _ _ => rfl)]
        congr 1
        split <;> rfl
    · -- failure: `_next := head`, retry
      rw [if_neg he, if_neg hh, if_neg he]
      refine ⟨?_, rfl⟩
      apply chain_state_ext <;> try rfl
      · show absSlot c s.head (upd s.next t s.head) = absSlot c s.head s.next
        unfold absSlot
        rw [if_neg hh, if_neg hh]
        congr 1
        apply follow_congr
        intro x hx
        have : x ≠ t := fun e => h.not_mem_chain hh hu (e ▸ hx)
        exact upd_other _ _ _ _ this
      · show (fun i => absPc c (upd s.next t s.head) i (upd s.pc t (Pc.wCas false) i)) = upd (abs c s).pc t _
        rw [abs_pc_step c s.next (upd s.next t s.head) s.pc t _ (h.absPc_frame_unsub hu _)]
        simp only [absPc, upd_same]
        rfl


theorem finishRun_evs_congr (c : Cfg) (a b : Chain.State) (t : Nat) (dt : Bool) (evs : List Ev) (ho : a.owner = b.owner) :
    (Chain.finishRun c a t dt evs).2 = (Chain.finishRun c b t dt evs).2 := by
  have hd : (Chain.dtorLoad a t).2 = (Chain.dtorLoad b t).2 := by
    unfold Chain.dtorLoad
    rw [ho]
    cases b.owner <;> rfl
  unfold Chain.finishRun
  cases dt
  · cases c.kind t
    · rfl
    · rfl
    · rfl
    · show evs ++ (Chain.dtorLoad a t).2 = evs ++ (Chain.dtorLoad b t).2
      rw [hd]
  · rfl

theorem lift_abs (c : Cfg) (s : State) : lift (abs c s) s = abs c s := rfl

/-- the rest of `value()` after its `pending()` load, at both levels -/
theorem runActs_pend (c : Cfg) (s : State) (t : Nat) (pend : Option (Nat × Seen)) (A : List Act) :
    Chain.runActs c t (abs c s) (pendActs pend ++ A) =
      ((Chain.runActs c t (abs c (pendStep c s pend).1) A).1,
       (pendStep c s pend).2 ++ (Chain.runActs c t (abs c (pendStep c s pend).1) A).2.1,
       (Chain.runActs c t (abs c (pendStep c s pend).1) A).2.2.1,
       (Chain.runActs c t (abs c (pendStep c s pend).1) A).2.2.2) := by
  cases pend with
  | none => rfl
  | some p =>
    obtain ⟨x, sn⟩ := p
    simp only [pendActs, pendStep, List.cons_append, List.nil_append, Chain.runActs, obsOf_eq]
    rfl

theorem pendStep_same (c : Cfg) (s : State) (pend : Option (Nat × Seen)) :
    SameShared s (pendStep c s pend).1 ∧ (pendStep c s pend).1.next = s.next ∧ (pendStep c s pend).1.woken = s.woken
      ∧ (pendStep c s pend).1.live = s.live ∧ (pendStep c s pend).1.log = s.log := by
  cases pend with
  | none => exact ⟨SameShared.refl s, rfl, rfl, rfl, rfl⟩
  | some p => exact ⟨⟨rfl, rfl, rfl, rfl, rfl, rfl, rfl⟩, rfl, rfl, rfl, rfl⟩

section
variable {c : Cfg} {s : State} (h : PInv c s)
include h

/-- the nodes the walker still has to visit: within the fuel, subscribed, not released, and none of them the walker itself -/
theorem PInv.walk_nodes {t : Nat} {dt : Bool} {cur : Ptr} {ret : List Nat} {pend : Option (Nat × Seen)}
    (hp : s.pc t = Pc.rWalk dt cur ret pend) :
    (follow s.next c.n cur).length ≤ c.n ∧
    ∀ x, x ∈ follow s.next c.n cur → s.subscribed x = true ∧ s.woken x = 0 ∧ x ≠ t := by
  obtain ⟨_, hwin, hc, hcnt⟩ := h.walk_facts hp
  have hmem : ∀ x, x ∈ follow s.next c.n cur → s.subscribed x = true ∧ s.woken x = 0 := by
    intro x hx
    have hpos : 0 < (follow s.next c.n cur).count x := List.count_pos_iff.2 hx
    have := hcnt x
    split at this
    · exact ⟨‹_›, by omega⟩
    · omega
  refine ⟨len_le c _ (chainIs_nodup hc) (fun x hx => (h.lt_of_sub (hmem x hx).1).1), ?_⟩
  intro x hx
  refine ⟨(hmem x hx).1, (hmem x hx).2, ?_⟩
  intro e
  subst e
  -- the walker is not a waiter
  have hw := (h.lt_of_sub (hmem x hx).1).2
  have := (h.base.winpc x hwin).2.1
  rw [Chain.isW_iff] at hw
  obtain ⟨_, k, hk⟩ := hw
  rw [hk] at this; simp [Chain.Kind.cls] at this

end

/-- one step of the walker against `Chain.stepRun` -/
theorem sim_walk (c : Cfg) (s : State) (h : PInv c s) (t : Nat) (dt : Bool) (cur : Ptr) (ret : List Nat)
    (pend : Option (Nat × Seen)) (hp : s.pc t = Pc.rWalk dt cur ret pend) :
    abs c (stepWalk c s t dt cur ret pend).1 = (Chain.astep c (abs c s) t).1
      ∧ (stepWalk c s t dt cur ret pend).2 = (Chain.astep c (abs c s) t).2 := by
  obtain ⟨hhead, hwin, hc, hcnt⟩ := h.walk_facts hp
  obtain ⟨hlen, hnodes⟩ := h.walk_nodes hp
  have hA : Chain.astep c (abs c s) t =
      Chain.stepRun c (abs c s) t dt (pendActs pend ++ walkActs c t (follow s.next c.n cur) ret) := by
    unfold Chain.astep; rw [abs_pc, hp]; rfl
  obtain ⟨hsame, hnx, _, _, _⟩ := pendStep_same c s pend
  have hc' : ChainIs (pendStep c s pend).1.next cur (follow s.next c.n cur) := by rw [hnx]; exact hc
  have hseen : (abs c (pendStep c s pend).1).slot.seen = (pendStep c s pend).1.head := by
    have e : (pendStep c s pend).1.head = Seen.ready := by rw [hsame.head, hhead]
    rw [(absSlot_ready_iff c _).2 e, e]; rfl
  obtain ⟨l', hrel, hcl', ⟨pre, hpre⟩, hfr⟩ :=
    walk_sim c t (abs c (pendStep c s pend).1) (follow s.next c.n cur) c.n (pendStep c s pend).1 cur ret hc' hlen rfl hseen
  have hB := runActs_pend c s t pend (walkActs c t (follow s.next c.n cur) ret)
  -- name the two results
  generalize hr : walk c t c.n (pendStep c s pend).1 cur ret = r at hrel hcl' hfr
  obtain ⟨hst, hevs, hrest, hstop, hsm⟩ := hrel
  rw [lift_abs] at hst hevs hrest hstop
  have hl'len : l'.length ≤ c.n := by
    have : (follow s.next c.n cur).length = pre.length + l'.length := by rw [hpre]; simp
    omega
  have hfol : follow r.s.next c.n r.cur = l' := follow_of_chainIs hcl' c.n hl'len
  have hrhead : r.s.head = Seen.ready := by rw [hsm.head, hsame.head, hhead]
  -- `abs c r.s` and the list-level result agree except for the walker's own pc
  have K : ∀ q, Chain.setPc (abs c r.s) t q = Chain.setPc (lift (abs c (pendStep c s pend).1) r.s) t q := by
    intro q
    apply chain_state_ext <;> try rfl
    · exact hsm.owner
    · show absSlot c r.s.head r.s.next = absSlot c (pendStep c s pend).1.head (pendStep c s pend).1.next
      unfold absSlot
      rw [if_pos hrhead, if_pos (by rw [hsame.head, hhead])]
    · exact hsm.payload
    · show upd (abs c r.s).pc t q = upd (abs c (pendStep c s pend).1).pc t q
      funext i
      by_cases hi : i = t
      · subst hi; simp
      · rw [upd_other _ _ _ _ hi, upd_other _ _ _ _ hi]
        show absPc c r.s.next i (r.s.pc i) = absPc c (pendStep c s pend).1.next i ((pendStep c s pend).1.pc i)
        rw [hsm.pc, hnx]
        apply absPc_frame
        · intro f hf
          have hu := h.unsub (Or.inr (Or.inl ⟨f, by rw [← hsame.pc]; exact hf⟩))
          rw [hfr i (h.not_mem_walk hp hu), hnx]
        · intro dt' cur' ret' pend' hf
          exact absurd (h.walker_unique hp (by rw [← hsame.pc]; exact hf)) hi
    · exact hsm.wins
    · exact hsm.winner
    · exact hsm.subscribed
  rw [hA]
  unfold stepWalk Chain.stepRun
  simp only [hr, hB]
  rw [hstop]
  by_cases hs : r.stopped = true
  · rw [if_pos hs, if_pos hs]
    refine ⟨?_, by simp only []; rw [hevs]⟩
    rw [abs_setPc]
    simp only [absPc, hfol]
    rw [K, hst, hrest]
  · rw [if_neg hs, if_neg hs]
    obtain ⟨f1, f2⟩ := abs_finishRun c r.s t dt ((pendStep c s pend).2 ++ r.evs)
    rw [f1, f2, hst, hevs]
    refine ⟨?_, finishRun_evs_congr c _ _ t dt _ hsm.owner⟩
    rw [← Chain.finishRun_setPc c t (abs c r.s) Chain.Pc.done, K, Chain.finishRun_setPc]

/-- **One-step simulation.**  From every state satisfying the invariant, for every agent `t` (enabled or not): the abstraction
of the pointer-level successor is the list-level successor of the abstraction, and the emitted events are the same. -/
theorem sim_step (c : Cfg) (s : State) (h : PInv c s) (t : Nat) :
    abs c (pstep c s t).1 = (Chain.astep c (abs c s) t).1 ∧ (pstep c s t).2 = (Chain.astep c (abs c s) t).2 := by
  by_cases h1 : ∃ dt cur ret pend, s.pc t = Pc.rWalk dt cur ret pend
  · obtain ⟨dt, cur, ret, pend, hp⟩ := h1
    have : pstep c s t = stepWalk c s t dt cur ret pend := by unfold pstep; rw [hp]
    rw [this]; exact sim_walk c s h t dt cur ret pend hp
  · by_cases h2 : ∃ f, s.pc t = Pc.wCas f
    · obtain ⟨f, hp⟩ := h2
      have : pstep c s t = casStep c s t f := by unfold pstep; rw [hp]
      rw [this]; exact sim_cas c s h t f hp
    · exact sim_simple c s h t (fun dt cur ret pend e => h1 ⟨dt, cur, ret, pend, e⟩) (fun f e => h2 ⟨f, e⟩)

/-! ## preservation of the structural invariant -/

/-- steps that write no `_next` field and publish nothing -/
theorem struct_pcStep (c : Cfg) (s : State) (hs : Struct c s) (s' : State) (t : Nat) (p : Pc)
    (hhead : s'.head = s.head ∨ s'.head = Seen.ready) (hnext : s'.next = s.next) (hsub : s'.subscribed = s.subscribed)
    (hpc : s'.pc = upd s.pc t p)
    (hp1 : ∀ dt cur ret pend, p = Pc.rWalk dt cur ret pend → ChainIs s.next cur (follow s.next c.n cur))
    (hp2 : p = Pc.wLoad → s.next t = Seen.null) (hp3 : ∀ f, p = Pc.wCas f → s.next t ≠ Seen.ready)
    (hp4 : p = Pc.wRead true → s.subscribed t = false) (hal : Alive s') : Struct c s' := by
  refine ⟨?_, ?_, ?_, ?_, ?_, hal⟩
  · intro hh
    rcases hhead with e | e
    · rw [e, hnext]; rw [e] at hh; exact hs.chain hh
    · exact absurd e hh
  · intro i dt cur ret pend hi
    rw [hnext]
    rw [hpc] at hi
    by_cases e : i = t
    · subst e; rw [upd_same] at hi; exact hp1 _ _ _ _ hi
    · rw [upd_other _ _ _ _ e] at hi; exact hs.walk i dt cur ret pend hi
  · intro i hi
    rw [hnext]
    rw [hpc] at hi
    by_cases e : i = t
    · subst e; rw [upd_same] at hi; exact hp2 hi
    · rw [upd_other _ _ _ _ e] at hi; exact hs.fresh i hi
  · intro i f hi
    rw [hnext]
    rw [hpc] at hi
    by_cases e : i = t
    · subst e; rw [upd_same] at hi; exact hp3 f hi
    · rw [upd_other _ _ _ _ e] at hi; exact hs.casnext i f hi
  · intro i hi
    rw [hsub]
    rw [hpc] at hi
    by_cases e : i = t
    · subst e; rw [upd_same] at hi; exact hp4 hi
    · rw [upd_other _ _ _ _ e] at hi; exact hs.refused i hi

theorem struct_dtorLoad (c : Cfg) (s : State) (hs : Struct c s) (t : Nat) : Struct c (dtorLoad s t).1 := by
  unfold dtorLoad
  split
  · exact struct_pcStep c s hs _ t (Pc.rResolve true) (Or.inl rfl) rfl rfl rfl (by simp) (by simp) (by simp) (by simp) hs.alive
  · exact struct_pcStep c s hs _ t Pc.dFin (Or.inl rfl) rfl rfl rfl (by simp) (by simp) (by simp) (by simp) hs.alive

theorem struct_ddefClaim (c : Cfg) (s : State) (hs : Struct c s) (t : Nat) : Struct c (ddefClaim s t).1 := by
  unfold ddefClaim
  split
  · exact struct_pcStep c s hs _ t (Pc.rResolve false) (Or.inl rfl) rfl rfl rfl (by simp) (by simp) (by simp) (by simp) hs.alive
  · exact struct_pcStep c s hs _ t Pc.dLoad (Or.inl rfl) rfl rfl rfl (by simp) (by simp) (by simp) (by simp) hs.alive

theorem struct_dtorEnter (c : Cfg) (s : State) (hs : Struct c s) (t : Nat) : Struct c (dtorEnter c s t).1 := by
  unfold dtorEnter
  split
  · exact struct_ddefClaim c s hs t
  · exact struct_dtorLoad c s hs t

theorem struct_finishRun (c : Cfg) (s : State) (hs : Struct c s) (t : Nat) (dt : Bool) (evs : List Ev) :
    Struct c (finishRun c s t dt evs).1 := by
  unfold finishRun
  split
  · exact struct_pcStep c s hs _ t Pc.done (Or.inl rfl) rfl rfl rfl (by simp) (by simp) (by simp) (by simp) hs.alive
  · split
    · exact struct_dtorLoad c s hs t
    · exact struct_pcStep c s hs _ t Pc.done (Or.inl rfl) rfl rfl rfl (by simp) (by simp) (by simp) (by simp) hs.alive

theorem alive_observe (s : State) (x : Nat) (h : Alive s) : Alive (observe s x) := h

theorem alive_die (c : Cfg) (s : State) (h : PInv c s) (t : Nat) (hf : s.flag t = true) : Alive (die s t) := by
  intro x hx
  by_cases e : x = t
  · subst e
    have := ((h.base.flag_iff x).1 hf).2
    change s.woken x = 0 at hx
    change 1 ≤ s.woken x at this
    omega
  · show upd s.live t false x = true
    rw [upd_other _ _ _ _ e]; exact h.str.alive x hx

theorem struct_readStep (c : Cfg) (s : State) (hs : Struct c s) (t : Nat) :
    Struct c (readStep c s t).1 := by
  unfold readStep
  split
  · exact struct_pcStep c s hs _ t _ (Or.inl rfl) rfl rfl rfl (by simp) (by simp) (by simp) (by simp) hs.alive
  · exact struct_pcStep c s hs _ t Pc.done (Or.inl rfl) rfl rfl rfl (by simp) (by simp) (by simp) (by simp) hs.alive


/-- an agent writes the `_next` field of its own, unpublished node (failed CAS, refused path) -/
theorem struct_writeOwn (c : Cfg) (s : State) (h : PInv c s) (s' : State) (t : Nat) (p : Pc) (v : Ptr)
    (hu : s.subscribed t = false)
    (hhead : s'.head = s.head) (hnext : s'.next = upd s.next t v) (hsub : s'.subscribed = s.subscribed)
    (hpc : s'.pc = upd s.pc t p)
    (hp1 : ∀ dt cur ret pend, p ≠ Pc.rWalk dt cur ret pend)
    (hp2 : p = Pc.wLoad → v = Seen.null) (hp3 : ∀ f, p = Pc.wCas f → v ≠ Seen.ready)
    (hal : Alive s') : Struct c s' := by
  refine ⟨?_, ?_, ?_, ?_, ?_, hal⟩
  · intro hh
    rw [hhead] at hh ⊢
    rw [hnext]
    have hnm := h.not_mem_chain hh hu
    have hfol : follow (upd s.next t v) c.n s.head = follow s.next c.n s.head := by
      apply follow_congr
      intro x hx
      exact upd_other _ _ _ _ (fun e => hnm (e ▸ hx))
    rw [hfol]
    exact chainIs_frame (h.str.chain hh) t v hnm
  · intro i dt cur ret pend hi
    rw [hpc] at hi
    by_cases e : i = t
    · subst e; rw [upd_same] at hi; exact absurd hi (hp1 _ _ _ _)
    · rw [upd_other _ _ _ _ e] at hi
      rw [hnext]
      have hnm := h.not_mem_walk hi hu
      have hfol : follow (upd s.next t v) c.n cur = follow s.next c.n cur := by
        apply follow_congr
        intro x hx
        exact upd_other _ _ _ _ (fun e => hnm (e ▸ hx))
      rw [hfol]
      exact chainIs_frame (h.str.walk i dt cur ret pend hi) t v hnm
  · intro i hi
    rw [hpc] at hi
    rw [hnext]
    by_cases e : i = t
    · subst e; rw [upd_same] at hi ⊢; exact hp2 hi
    · rw [upd_other _ _ _ _ e] at hi ⊢; exact h.str.fresh i hi
  · intro i f hi
    rw [hpc] at hi
    rw [hnext]
    by_cases e : i = t
    · subst e; rw [upd_same] at hi ⊢; exact hp3 f hi
    · rw [upd_other _ _ _ _ e] at hi ⊢; exact h.str.casnext i f hi
  · intro i hi
    rw [hpc] at hi
    rw [hsub]
    by_cases e : i = t
    · subst e; exact hu
    · rw [upd_other _ _ _ _ e] at hi; exact h.str.refused i hi

theorem struct_cas (c : Cfg) (s : State) (h : PInv c s) (t : Nat) (f : Bool) (hp : s.pc t = Pc.wCas f) :
    Struct c (casStep c s t f).1 := by
  have hu := h.unsub (Or.inr (Or.inl ⟨f, hp⟩))
  unfold casStep
  by_cases he : s.head = s.next t
  · -- success
    rw [if_pos he]
    have hh : s.head ≠ Seen.ready := by rw [he]; exact h.str.casnext t f hp
    have hc := h.str.chain hh
    have hpush := chainIs_push hc t he.symm
    have hlen : (t :: follow s.next c.n s.head).length ≤ c.n := by
      apply len_le c _ (chainIs_nodup hpush)
      intro x hx
      rcases List.mem_cons.1 hx with e | e
      · rw [e]; exact h.lt_of_pc (by rw [hp]; simp)
      · exact h.chain_lt hh x e
    refine ⟨?_, ?_, ?_, ?_, ?_, h.str.alive⟩
    · intro _
      show ChainIs s.next (Seen.node t) (follow s.next c.n (Seen.node t))
      rw [follow_of_chainIs hpush c.n hlen]; exact hpush
    · intro i dt cur ret pend hi
      exact absurd (show s.pc i = Pc.rWalk dt cur ret pend by
        change upd s.pc t _ i = _ at hi
        by_cases e : i = t
        · subst e; rw [upd_same] at hi; split at hi <;> cases hi
        · rwa [upd_other _ _ _ _ e] at hi) ((h.chain_facts hh).2.2.2 i dt cur ret pend)
    · intro i hi
      change upd s.pc t _ i = _ at hi
      by_cases e : i = t
      · subst e; rw [upd_same] at hi; split at hi <;> cases hi
      · rw [upd_other _ _ _ _ e] at hi; exact h.str.fresh i hi
    · intro i f' hi
      change upd s.pc t _ i = _ at hi
      by_cases e : i = t
      · subst e; rw [upd_same] at hi; split at hi <;> cases hi
      · rw [upd_other _ _ _ _ e] at hi; exact h.str.casnext i f' hi
    · intro i hi
      change upd s.pc t _ i = _ at hi
      by_cases e : i = t
      · subst e; rw [upd_same] at hi; split at hi <;> cases hi
      · rw [upd_other _ _ _ _ e] at hi
        show upd s.subscribed t true i = false
        rw [upd_other _ _ _ _ e]; exact h.str.refused i hi
  · rw [if_neg he]
    by_cases hh : s.head = Seen.ready
    · rw [if_pos hh]
      exact struct_writeOwn c s h _ t (Pc.wRead true) Seen.ready hu rfl rfl rfl rfl (by simp) (by simp) (by simp) h.str.alive
    · rw [if_neg hh]
      exact struct_writeOwn c s h _ t (Pc.wCas false) s.head hu rfl rfl rfl rfl (by simp) (by simp)
        (fun _ _ => hh) h.str.alive

theorem struct_clearNext (c : Cfg) (s : State) (h : PInv c s) (t : Nat) (hp : s.pc t = Pc.wRead true) :
    Struct c (clearNext s t) :=
  struct_writeOwn c s h _ t (Pc.wRead true) Seen.null (h.unsub (Or.inr (Or.inr hp))) rfl rfl rfl
    (by show s.pc = upd s.pc t (Pc.wRead true); rw [Chain.upd_self _ _ _ hp]) (by simp) (by simp) (by simp) h.str.alive

theorem struct_walk (c : Cfg) (s : State) (h : PInv c s) (t : Nat) (dt : Bool) (cur : Ptr) (ret : List Nat)
    (pend : Option (Nat × Seen)) (hp : s.pc t = Pc.rWalk dt cur ret pend) :
    Struct c (stepWalk c s t dt cur ret pend).1 := by
  obtain ⟨hhead, hwin, hc, hcnt⟩ := h.walk_facts hp
  obtain ⟨hlen, hnodes⟩ := h.walk_nodes hp
  obtain ⟨hsame, hnx, hwk, hlv, _⟩ := pendStep_same c s pend
  have hc' : ChainIs (pendStep c s pend).1.next cur (follow s.next c.n cur) := by rw [hnx]; exact hc
  have hseen : (abs c (pendStep c s pend).1).slot.seen = (pendStep c s pend).1.head := by
    have e : (pendStep c s pend).1.head = Seen.ready := by rw [hsame.head, hhead]
    rw [(absSlot_ready_iff c _).2 e, e]; rfl
  obtain ⟨l', hrel, hcl', ⟨pre, hpre⟩, hfr⟩ :=
    walk_sim c t (abs c (pendStep c s pend).1) (follow s.next c.n cur) c.n (pendStep c s pend).1 cur ret hc' hlen rfl hseen
  have hal : Alive (walk c t c.n (pendStep c s pend).1 cur ret).s := by
    apply alive_walk
    intro x hx; rw [hlv]; rw [hwk] at hx; exact h.str.alive x hx
  generalize hr : walk c t c.n (pendStep c s pend).1 cur ret = r at hrel hcl' hfr hal
  have hsm := hrel.same
  have hl'len : l'.length ≤ c.n := by
    have : (follow s.next c.n cur).length = pre.length + l'.length := by rw [hpre]; simp
    omega
  have hfol : follow r.s.next c.n r.cur = l' := follow_of_chainIs hcl' c.n hl'len
  have hrhead : r.s.head = Seen.ready := by rw [hsm.head, hsame.head, hhead]
  have hrpc : r.s.pc = s.pc := by rw [hsm.pc, hsame.pc]
  have hrsub : r.s.subscribed = s.subscribed := by rw [hsm.subscribed, hsame.subscribed]
  have hrnext : ∀ i, s.subscribed i = false → r.s.next i = s.next i := by
    intro i hi; rw [hfr i (h.not_mem_walk hp hi), hnx]
  -- the structure of the walker's result, whatever its own next pc is
  have key : ∀ p : Pc, (∀ dt' cur' ret' pend', p = Pc.rWalk dt' cur' ret' pend' → cur' = r.cur) →
      p ≠ Pc.wLoad → (∀ f, p ≠ Pc.wCas f) → p ≠ Pc.wRead true → Struct c (setPc r.s t p) := by
    intro p h1 h2 h3 h4
    refine ⟨?_, ?_, ?_, ?_, ?_, hal⟩
    · intro hh; exact absurd hrhead hh
    · intro i dt' cur' ret' pend' hi
      change upd r.s.pc t p i = _ at hi
      by_cases e : i = t
      · subst e; rw [upd_same] at hi
        rw [h1 _ _ _ _ hi]
        show ChainIs r.s.next r.cur (follow r.s.next c.n r.cur)
        rw [hfol]; exact hcl'
      · rw [upd_other _ _ _ _ e, hrpc] at hi
        exact absurd (h.walker_unique hp hi) e
    · intro i hi
      change upd r.s.pc t p i = _ at hi
      by_cases e : i = t
      · subst e; rw [upd_same] at hi; exact absurd hi h2
      · rw [upd_other _ _ _ _ e, hrpc] at hi
        show r.s.next i = _
        rw [hrnext i (h.unsub (Or.inl hi))]; exact h.str.fresh i hi
    · intro i f hi
      change upd r.s.pc t p i = _ at hi
      by_cases e : i = t
      · subst e; rw [upd_same] at hi; exact absurd hi (h3 f)
      · rw [upd_other _ _ _ _ e, hrpc] at hi
        show r.s.next i ≠ _
        rw [hrnext i (h.unsub (Or.inr (Or.inl ⟨f, hi⟩)))]; exact h.str.casnext i f hi
    · intro i hi
      change upd r.s.pc t p i = _ at hi
      by_cases e : i = t
      · subst e; rw [upd_same] at hi; exact absurd hi h4
      · rw [upd_other _ _ _ _ e, hrpc] at hi
        show r.s.subscribed i = false
        rw [hrsub]; exact h.str.refused i hi
  unfold stepWalk
  simp only [hr]
  split
  · exact key _ (fun _ _ _ _ e => by injection e with _ e _ _; exact e.symm) (by simp) (by simp) (by simp)
  · -- the walk is over: the walker's pc becomes `done` (or the base destructor goes on)
    have hst : Struct c (setPc r.s t Pc.done) := key _ (by simp) (by simp) (by simp) (by simp)
    have := struct_finishRun c (setPc r.s t Pc.done) hst t dt ((pendStep c s pend).2 ++ r.evs)
    have e : (finishRun c (setPc r.s t Pc.done) t dt ((pendStep c s pend).2 ++ r.evs)).1
        = (finishRun c r.s t dt ((pendStep c s pend).2 ++ r.evs)).1 := by
      unfold finishRun dtorLoad
      cases dt <;> cases c.kind t <;> simp only [setPc, Chain.upd_upd] <;> try rfl
      all_goals (split <;> simp only [setPc, Chain.upd_upd])
    rwa [e] at this

theorem struct_step (c : Cfg) (s : State) (h : PInv c s) (t : Nat) (hen : enabled c s t = true) :
    Struct c (pstep c s t).1 := by
  have hs := h.str
  unfold pstep
  cases hp : s.pc t with
  | done => exact hs
  | rClaim =>
    simp only []
    split
    · exact struct_pcStep c s hs _ t (Pc.rResolve false) (Or.inl rfl) rfl rfl rfl (by simp) (by simp) (by simp) (by simp) hs.alive
    · exact struct_pcStep c s hs _ t Pc.rFinLost (Or.inl rfl) rfl rfl rfl (by simp) (by simp) (by simp) (by simp) hs.alive
  | rFinLost => exact struct_pcStep c s hs _ t Pc.done (Or.inl rfl) rfl rfl rfl (by simp) (by simp) (by simp) (by simp) hs.alive
  | rResolve dt =>
    have hpc' : (abs c s).pc t = Chain.Pc.rResolve dt := by rw [abs_pc, hp]; rfl
    obtain ⟨l, hl⟩ := Chain.chain_of_resolve c t (abs c s) h.base dt hpc'
    have hh : s.head ≠ Seen.ready := by
      intro e; rw [(absSlot_ready_iff c s).2 e] at hl; cases hl
    exact struct_pcStep c s hs _ t (Pc.rWalk dt s.head [] none) (Or.inr rfl) rfl rfl rfl
      (fun _ _ _ _ e => by injection e with _ e _ _; rw [← e]; exact hs.chain hh) (by simp) (by simp) (by simp) hs.alive
  | rWalk dt cur ret pend => exact struct_walk c s h t dt cur ret pend hp
  | dArrive =>
    simp only []
    split
    · exact struct_dtorEnter c s hs t
    · exact struct_pcStep c s hs _ t Pc.dBlocked (Or.inl rfl) rfl rfl rfl (by simp) (by simp) (by simp) (by simp) hs.alive
  | dBlocked => exact struct_dtorEnter c s hs t
  | dLoad => exact struct_dtorLoad c s hs t
  | dFin => exact struct_pcStep c s hs _ t Pc.done (Or.inl rfl) rfl rfl rfl (by simp) (by simp) (by simp) (by simp) hs.alive
  | wLoad =>
    simp only []
    split
    · exact struct_pcStep c s hs _ t (Pc.wRead false) (Or.inl rfl) rfl rfl rfl (by simp) (by simp) (by simp) (by simp) hs.alive
    · exact struct_pcStep c s hs _ t (Pc.wCas true) (Or.inl rfl) rfl rfl rfl (by simp) (by simp)
        (fun _ _ => by rw [hs.fresh t hp]; simp) (by simp) hs.alive
  | wCas f => exact struct_cas c s h t f hp
  | wFinParked => exact struct_pcStep c s hs _ t Pc.done (Or.inl rfl) rfl rfl rfl (by simp) (by simp) (by simp) (by simp) hs.alive
  | wWait =>
    simp only []
    split
    · rename_i hf
      exact struct_pcStep c s hs _ t (Pc.wRead false) (Or.inl rfl) rfl rfl rfl (by simp) (by simp) (by simp) (by simp)
        (alive_die c s h t hf)
    · exact struct_pcStep c s hs _ t Pc.wBlocked (Or.inl rfl) rfl rfl rfl (by simp) (by simp) (by simp) (by simp) hs.alive
  | wBlocked =>
    have hf : s.flag t = true := by simpa [enabled, hp] using hen
    exact struct_pcStep c s hs _ t (Pc.wRead false) (Or.inl rfl) rfl rfl rfl (by simp) (by simp) (by simp) (by simp)
      (alive_die c s h t hf)
  | wRead clr =>
    cases clr with
    | false => exact struct_readStep c s hs t
    | true => exact struct_readStep c _ (struct_clearNext c s h t hp) t
  | wRead2 sn =>
    exact struct_pcStep c s hs _ t Pc.done (Or.inl rfl) rfl rfl rfl (by simp) (by simp) (by simp) (by simp) hs.alive

/-- the invariant is preserved by every enabled step -/
theorem pinv_step (c : Cfg) (s : State) (h : PInv c s) (t : Nat) (hen : enabled c s t = true) : PInv c (pstep c s t).1 := by
  refine ⟨?_, struct_step c s h t hen⟩
  rw [(sim_step c s h t).1]
  exact Chain.inv_astep c t (abs c s) h.base (by rw [← enabled_eq]; exact hen)

theorem pinv_run (c : Cfg) (s : State) (sched : List Nat) (h : PInv c s) : PInv c (prun c s sched) := by
  induction sched generalizing s with
  | nil => exact h
  | cons t r ih =>
    simp only [prun, List.foldl_cons]
    split
    · rename_i hen; exact ih _ (pinv_step c s h t hen)
    · exact ih _ h

/-- `s` is reached from the initial pointer-level state by some schedule -/
def PReachable (c : Cfg) (s : State) : Prop := ∃ sched : List Nat, s = prun c (init c) sched

theorem PReachable.inv {c : Cfg} {s : State} (h : PReachable c s) : PInv c s := by
  obtain ⟨sched, rfl⟩ := h; exact pinv_run c _ sched (pinv_init c)

theorem preachable_run (c : Cfg) (sched : List Nat) : PReachable c (prun c (init c) sched) := ⟨sched, rfl⟩

/-- **Simulation for whole runs** (from any state satisfying the invariant) -/
theorem sim_run_from (c : Cfg) (s : State) (h : PInv c s) (sched : List Nat) :
    abs c (prun c s sched) = Chain.run c (abs c s) sched := by
  induction sched generalizing s with
  | nil => rfl
  | cons t r ih =>
    simp only [prun, Chain.run, List.foldl_cons]
    rw [← enabled_eq]
    split
    · rename_i hen
      rw [← (sim_step c s h t).1]
      exact ih _ (pinv_step c s h t hen)
    · exact ih _ h

/-- **Simulation for whole runs**: the abstraction of the pointer-level run is the list-level run, for every configuration and
every schedule -/
theorem sim_run (c : Cfg) (sched : List Nat) : abs c (prun c (init c) sched) = Chain.run c (Chain.init c) sched := by
  rw [sim_run_from c _ (pinv_init c), abs_init]

/-- the abstraction of a reachable pointer-level state is a reachable list-level state -/
theorem PReachable.abs {c : Cfg} {s : State} (h : PReachable c s) : Chain.Reachable c (abs c s) := by
  obtain ⟨sched, rfl⟩ := h; exact ⟨sched, sim_run c sched⟩

theorem sim_runEv_from (c : Cfg) (p : State × List Ev) (h : PInv c p.1) (sched : List Nat) :
    abs c (prunEvA c p sched).1 = (Chain.runEvA c (abs c p.1, p.2) sched).1
      ∧ (prunEvA c p sched).2 = (Chain.runEvA c (abs c p.1, p.2) sched).2 := by
  induction sched generalizing p with
  | nil => exact ⟨rfl, rfl⟩
  | cons t r ih =>
    simp only [prunEvA, Chain.runEvA, List.foldl_cons]
    rw [← enabled_eq]
    split
    · rename_i hen
      have := ih ((pstep c p.1 t).1, p.2 ++ (pstep c p.1 t).2) (pinv_step c p.1 h t hen)
      simp only [(sim_step c p.1 h t).1, (sim_step c p.1 h t).2] at this
      rw [(sim_step c p.1 h t).2]
      exact this
    · exact ih p h

/-- the event traces agree, too -/
theorem sim_runEv (c : Cfg) (sched : List Nat) :
    (prunEv c (init c) sched).2 = (Chain.runEv c (Chain.init c) sched).2 := by
  have := (sim_runEv_from c (init c, []) (pinv_init c) sched).2
  rw [abs_init] at this
  exact this

/-! ## (d) node-lifetime safety -/

/-- the discipline every plain access to a field of an awaiter node obeys: the node is live at the moment of the access; its own
waiter touches it only while it is unpublished; anybody else touching it is not a waiter (it is the walker), and the node is
a published waiter's -/
structure AccessOK (c : Cfg) (a : Access) : Prop where
  live : a.live = true
  own : a.agent = a.node → a.pub = false
  other : a.agent ≠ a.node → a.pub = true ∧ Chain.isW c a.agent = false ∧ Chain.isW c a.node = true

theorem dtorLoad_log (s : State) (t : Nat) : (dtorLoad s t).1.log = s.log := by
  unfold dtorLoad; split <;> rfl

theorem ddefClaim_log (s : State) (t : Nat) : (ddefClaim s t).1.log = s.log := by
  unfold ddefClaim; split <;> rfl

theorem dtorEnter_log (c : Cfg) (s : State) (t : Nat) : (dtorEnter c s t).1.log = s.log := by
  unfold dtorEnter; split
  · exact ddefClaim_log s t
  · exact dtorLoad_log s t

theorem finishRun_log (c : Cfg) (s : State) (t : Nat) (dt : Bool) (evs : List Ev) : (finishRun c s t dt evs).1.log = s.log := by
  unfold finishRun
  split
  · rfl
  · split
    · exact dtorLoad_log s t
    · rfl

theorem readStep_log (c : Cfg) (s : State) (t : Nat) : (readStep c s t).1.log = s.log := by
  unfold readStep; split <;> rfl

theorem PInv.woken_zero {c : Cfg} {s : State} (h : PInv c s) {x : Nat} (hx : s.subscribed x = false) : s.woken x = 0 := by
  rcases Chain.slot_cases (abs c s) with hs | ⟨l, hl⟩
  · obtain ⟨w, hw, _, _⟩ := h.base.ready_phase hs
    have := h.base.readyW hs w hw x
    change s.woken x + _ = if s.subscribed x = true then 1 else 0 at this
    rw [hx] at this
    simp only [Bool.false_eq_true, if_false] at this
    omega
  · exact ((h.base.chain_phase l hl).2.1 x).1

/-- an access of agent `t` to its own, unpublished node -/
theorem PInv.own_access_ok {c : Cfg} {s : State} (h : PInv c s) {t : Nat} (hu : s.subscribed t = false) (f : Field) (w : Bool) :
    AccessOK c { agent := t, node := t, field := f, write := w, live := s.live t, pub := s.subscribed t } :=
  ⟨h.str.alive t (h.woken_zero hu), fun _ => hu, fun e => absurd rfl e⟩

/-- **Every access of the next step of any agent is safe**: from a state satisfying the invariant, every plain access to a node
field that the step of agent `t` performs (= every log entry it adds) touches a node that is still live at that moment, and obeys
the ownership discipline `AccessOK` -/
theorem step_access_ok (c : Cfg) (s : State) (h : PInv c s) (t : Nat) :
    ∀ a, a ∈ (pstep c s t).1.log → a ∈ s.log ∨ AccessOK c a := by
  intro a ha
  unfold pstep at ha
  cases hp : s.pc t with
  | done => rw [hp] at ha; exact Or.inl ha
  | rClaim => rw [hp] at ha; simp only [] at ha; split at ha <;> exact Or.inl ha
  | rFinLost => rw [hp] at ha; exact Or.inl ha
  | rResolve dt => rw [hp] at ha; exact Or.inl ha
  | rWalk dt cur ret pend =>
    rw [hp] at ha
    obtain ⟨hhead, hwin, hc, hcnt⟩ := h.walk_facts hp
    obtain ⟨hlen, hnodes⟩ := h.walk_nodes hp
    obtain ⟨hsame, hnx, hwk, hlv, hlog⟩ := pendStep_same c s pend
    have hc' : ChainIs (pendStep c s pend).1.next cur (follow s.next c.n cur) := by rw [hnx]; exact hc
    have ha' : a ∈ (walk c t c.n (pendStep c s pend).1 cur ret).s.log := by
      unfold stepWalk at ha
      simp only [] at ha
      split at ha
      · exact ha
      · rwa [finishRun_log] at ha
    rcases walk_log c t _ c.n _ cur ret hc' hlen (by
        intro x hx
        rw [hlv, hsame.subscribed]
        exact ⟨h.str.alive x (hnodes x hx).2.1, (hnodes x hx).1⟩) a ha' with h1 | ⟨h1, h2, h3, h4⟩
    · rw [hlog] at h1; exact Or.inl h1
    · right
      have hne : a.agent ≠ a.node := by rw [h1]; exact fun e => (hnodes _ h2).2.2 e.symm
      refine ⟨h3, fun e => absurd e hne, fun _ => ⟨h4, ?_, (h.lt_of_sub (hnodes _ h2).1).2⟩⟩
      rw [h1]
      have := (h.base.winpc t hwin).2.1
      cases hw : Chain.isW c t
      · rfl
      · rw [Chain.isW_iff] at hw
        obtain ⟨_, k, hk⟩ := hw
        rw [hk] at this; simp [Chain.Kind.cls] at this
  | dArrive =>
    rw [hp] at ha; simp only [] at ha
    split at ha
    · rw [dtorEnter_log] at ha; exact Or.inl ha
    · exact Or.inl ha
  | dBlocked => rw [hp] at ha; simp only [] at ha; rw [dtorEnter_log] at ha; exact Or.inl ha
  | dLoad => rw [hp] at ha; simp only [] at ha; rw [dtorLoad_log] at ha; exact Or.inl ha
  | dFin => rw [hp] at ha; exact Or.inl ha
  | wLoad => rw [hp] at ha; simp only [] at ha; split at ha <;> exact Or.inl ha
  | wCas f =>
    rw [hp] at ha
    have hu := h.unsub (Or.inr (Or.inl ⟨f, hp⟩))
    have hprep : ∀ a, a ∈ (prepare s t f).log → a ∈ s.log ∨ AccessOK c a := by
      intro a ha
      simp only [prepare, List.mem_append, List.mem_singleton] at ha
      rcases ha with (ha | ha) | ha
      · exact Or.inl ha
      · subst ha; exact Or.inr (h.own_access_ok hu _ _)
      · subst ha; exact Or.inr (h.own_access_ok hu _ _)
    have hfail : ∀ a, a ∈ (acc (prepare s t f) t t Field.next true).log → a ∈ s.log ∨ AccessOK c a := by
      intro a ha
      simp only [acc, List.mem_append, List.mem_singleton] at ha
      rcases ha with ha | ha
      · exact hprep a ha
      · subst ha; exact Or.inr (h.own_access_ok hu _ _)
    simp only [] at ha
    unfold casStep at ha
    split at ha
    · exact hprep a ha
    · split at ha
      · exact hfail a ha
      · exact hfail a ha
  | wFinParked => rw [hp] at ha; exact Or.inl ha
  | wWait => rw [hp] at ha; simp only [] at ha; split at ha <;> exact Or.inl ha
  | wBlocked => rw [hp] at ha; exact Or.inl ha
  | wRead clr =>
    rw [hp] at ha; simp only [] at ha
    rw [readStep_log] at ha
    cases clr with
    | false => exact Or.inl ha
    | true =>
      have hu := h.unsub (Or.inr (Or.inr hp))
      simp only [if_true, clearNext, acc, List.mem_append, List.mem_singleton] at ha
      rcases ha with (ha | ha) | ha
      · exact Or.inl ha
      · subst ha; exact Or.inr (h.own_access_ok hu _ _)
      · subst ha; exact Or.inr (h.own_access_ok hu _ _)
  | wRead2 sn => rw [hp] at ha; exact Or.inl ha

theorem log_ok_run (c : Cfg) (s : State) (sched : List Nat) (h : PInv c s) (hl : ∀ a, a ∈ s.log → AccessOK c a) :
    ∀ a, a ∈ (prun c s sched).log → AccessOK c a := by
  induction sched generalizing s with
  | nil => exact hl
  | cons t r ih =>
    simp only [prun, List.foldl_cons]
    split
    · rename_i hen
      apply ih _ (pinv_step c s h t hen)
      intro a ha
      rcases step_access_ok c s h t a ha with h1 | h1
      · exact hl a h1
      · exact h1
    · exact ih _ h hl

/-- **No access to a dead node, ever**: every entry of the access log of every reachable state obeys `AccessOK` -/
theorem log_ok {c : Cfg} {s : State} (h : PReachable c s) : ∀ a, a ∈ s.log → AccessOK c a := by
  obtain ⟨sched, rfl⟩ := h
  exact log_ok_run c _ sched (pinv_init c) (fun a ha => by cases ha)

end Cocls.ChainPtr
