import CoclsModel.Storage
/-!
Model of the part of `with_allocator.h` that decides WHICH argument of a coroutine selects the storage (C19):
`custom_allocator_base<Allocator, Base>` has two promise-level `operator new` overloads

    template<typename ... Args>                void *operator new(std::size_t sz, Allocator &storage, Args && ...);
    template<typename This, typename ... Args> void *operator new(std::size_t sz, This &, Allocator &storage, Args && ...);

and the compiler calls `operator new(sz, a0, a1, …)` with the coroutine's arguments as lvalues (`*this` first for a
non-static member function or a lambda).  `select` is C++ overload resolution on that set, as far as it depends on the
arguments: an argument is an lvalue of exactly the `Allocator` type (`stor k`: storage object `k`), of a class publicly
derived from it (`derived k`: the storage is the base subobject of object `k` — `class connection: reusable_storage`,
`reusable_storage_mtsafe`, `promise_extra_storage<T, A>`), or of a type that does not convert to `Allocator &` (`other`).

* overload 1 is viable iff `a0` converts; overload 2 iff `a1` converts (its `This &` binds to anything);
* identity beats the derived-to-base conversion argument by argument; when both overloads are exact in every
  argument (`stor, stor`) overload 2 is the more specialised template and wins; `derived, derived` is ambiguous and no
  viable overload is ill-formed (such a coroutine does not compile: `none`).

The storage objects are `reusable_storage` objects (the `Allocator` of the harness), any number of them, over the one
abstract heap of `Storage.lean`; every frame starts at offset 0 of the block of the object that served it.
-/
namespace Cocls.StorageSel
open Cocls.Storage (Heap Blk HEv)

inductive Arg where
  | stor (k : Nat)
  | derived (k : Nat)
  | other
  deriving DecidableEq, Repr

/-- the storage object whose `alloc` the selected `operator new` overload calls; `none` = the call is ill-formed -/
def select : List Arg → Option Nat
  | .stor _ :: .stor b :: _ => some b          -- both exact: (This &, Allocator &, …) is more specialised
  | .stor a :: _ => some a                     -- overload 1 exact (overload 2 not viable or needs a conversion)
  | .derived _ :: .stor b :: _ => some b       -- overload 2 exact beats derived-to-base of overload 1
  | .derived _ :: .derived _ :: _ => none      -- each overload better in one argument: ambiguous
  | .derived a :: _ => some a                  -- only overload 1 viable
  | .other :: .stor b :: _ => some b           -- only overload 2 viable
  | .other :: .derived b :: _ => some b
  | _ => none

structure Frame where
  id : Nat
  obj : Nat           -- the storage object that served it
  blk : Blk
  sz : Nat
  args : List Arg     -- ghost: the arguments the coroutine was called with
  deriving DecidableEq, Repr

structure State where
  heap : Heap := {}
  frames : List Frame := []
  nextFrame : Nat := 0
  ptr : Nat → Option Nat := fun _ => none     -- `_ptr` of storage object `k`
  cap : Nat → Nat := fun _ => 0               -- `_capacity` of storage object `k`
  ok : Bool := true                           -- ghost: one live frame per storage object so far (the caller's contract)

inductive Op where
  | coro (args : List Arg) (sz : Nat)    -- a coroutine with these arguments is created, its frame has `sz` bytes
  | free (id : Nat)                      -- the frame is destroyed (`reusable_storage::dealloc` does nothing)
  | destroy (k : Nat)                    -- `~reusable_storage()` of object `k`
  deriving DecidableEq, Repr

inductive Res where
  | coro (id : Nat) (obj : Nat) (blk : Blk)
  | free (id : Nat)
  | unit
  | illformed
  | bad
  deriving DecidableEq, Repr

def init : State := {}

def ptrBlk : Option Nat → Blk
  | some b => Blk.heap b
  | none => Blk.null

/-- `reusable_storage::alloc(n)` on object `k` -/
def rsAlloc (s : State) (k n : Nat) : State :=
  if n > s.cap k then
    { s with heap := (s.heap.delOpt (s.ptr k)).new n,
             ptr := fun j => if j = k then some s.heap.next else s.ptr j,
             cap := fun j => if j = k then n else s.cap j }
  else s

def stepCoro (s : State) (args : List Arg) (sz : Nat) : State × Res :=
  match select args with
  | none => (s, Res.illformed)
  | some k =>
      ({ rsAlloc s k sz with
           frames := s.frames ++ [⟨s.nextFrame, k, ptrBlk ((rsAlloc s k sz).ptr k), sz, args⟩],
           nextFrame := s.nextFrame + 1,
           ok := s.ok && s.frames.all (fun f => f.obj != k) },
       Res.coro s.nextFrame k (ptrBlk ((rsAlloc s k sz).ptr k)))

def stepFree (s : State) (id : Nat) : State × Res :=
  match s.frames.find? (fun f => f.id == id) with
  | none => (s, Res.bad)
  | some _ => ({ s with frames := s.frames.filter (fun f => f.id != id) }, Res.free id)

def stepDestroy (s : State) (k : Nat) : State × Res :=
  ({ s with heap := s.heap.delOpt (s.ptr k),
            ptr := fun j => if j = k then none else s.ptr j,
            cap := fun j => if j = k then 0 else s.cap j,
            ok := s.ok && s.frames.all (fun f => f.obj != k) }, Res.unit)

def step (s : State) : Op → State × Res
  | Op.coro args sz => stepCoro s args sz
  | Op.free id => stepFree s id
  | Op.destroy k => stepDestroy s k

def run (s : State) (ops : List Op) : State := ops.foldl (fun s op => (step s op).1) s

end Cocls.StorageSel
