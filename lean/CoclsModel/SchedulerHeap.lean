import CoclsModel.SchedulerProofs
/-!
The transcription of libstdc++'s `__push_heap` / `__adjust_heap` in `Scheduler.lean` (`stdHeap`, what the driver runs)
meets the contract the scheduler theorems assume of the std heap algorithms: `stdHeap_spec : HeapSpec stdHeap`.
-/
namespace Cocls.Sched

theorem getE_set (l : List Entry) (i j : Nat) (v : Entry) :
    getE (l.set i v) j = if i = j ∧ i < l.length then v else getE l j := by
  unfold getE
  simp only [List.getD_eq_getElem?_getD, List.getElem?_set]
  by_cases h : i = j
  · subst h
    by_cases h2 : i < l.length
    · simp [h2]
    · simp [h2]
  · simp [h]

theorem getE_set_eq {l : List Entry} {i : Nat} (v : Entry) (h : i < l.length) : getE (l.set i v) i = v := by
  rw [getE_set]; simp [h]

theorem getE_set_ne {l : List Entry} {i j : Nat} (v : Entry) (h : i ≠ j) : getE (l.set i v) j = getE l j := by
  rw [getE_set]; simp [h]

theorem getE_lt {l : List Entry} {i : Nat} (h : i < l.length) : getE l i = l[i] := by
  unfold getE; simp [List.getD_eq_getElem?_getD, h]

/-- the heap property stated on the entries -/
def IsHeapE (l : List Entry) : Prop := ∀ j, 0 < j → j < l.length → (getE l ((j - 1) / 2)).tp ≤ (getE l j).tp

theorem map_tp_getD {l : List Entry} {j : Nat} (h : j < l.length) : (l.map (·.tp)).getD j 0 = (getE l j).tp := by
  unfold getE; simp [List.getD_eq_getElem?_getD, h]

theorem isHeap_iff (l : List Entry) : IsHeap l ↔ IsHeapE l := by
  unfold IsHeap HeapT IsHeapE
  constructor
  · intro h j h0 hj
    have := h j h0 (by simpa using hj)
    rwa [map_tp_getD hj, map_tp_getD (by omega)] at this
  · intro h j h0 hj
    have hj' : j < l.length := by simpa using hj
    rw [map_tp_getD hj', map_tp_getD (by omega)]
    exact h j h0 hj'

/-- moving the hole: the vector with the hole filled is the same multiset before and after -/
theorem hole_move_perm (l : List Entry) (i j : Nat) (hi : i < l.length) (hj : j < l.length) (v : Entry) :
    ((l.set i (getE l j)).set j v).Perm (l.set i v) := by
  by_cases hij : i = j
  · subst hij; simp
  · rw [List.perm_iff_count]
    intro b
    have hj' : j < (l.set i (getE l j)).length := by simpa using hj
    rw [List.count_set hj', List.count_set hi, List.count_set hi]
    have e1 : (l.set i (getE l j))[j] = l[j] := by
      rw [List.getElem_set]; simp [hij]
    rw [e1, getE_lt hj]
    have : (if l[j] == b then 1 else 0) ≤ l.count b := by
      split
      · rename_i hb
        have : l[j] = b := by simpa using hb
        exact List.count_pos_iff.mpr (this ▸ List.getElem_mem hj)
      · omega
    have : (if l[i] == b then 1 else 0) ≤ l.count b := by
      split
      · rename_i hb
        have : l[i] = b := by simpa using hb
        exact List.count_pos_iff.mpr (this ▸ List.getElem_mem hi)
      · omega
    omega


/-! ### `__push_heap` -/

/-- the vector is a heap except around the hole `h`, where `v` is about to be placed -/
structure UpInv (l : List Entry) (h : Nat) (v : Entry) : Prop where
  lt : h < l.length
  away : ∀ j, 0 < j → j < l.length → j ≠ h → (j - 1) / 2 ≠ h → (getE l ((j - 1) / 2)).tp ≤ (getE l j).tp
  child : ∀ j, 0 < j → j < l.length → (j - 1) / 2 = h → v.tp ≤ (getE l j).tp
  grand : ∀ j, 0 < j → j < l.length → (j - 1) / 2 = h → 0 < h → (getE l ((h - 1) / 2)).tp ≤ (getE l j).tp

theorem siftUp_length (v : Entry) : ∀ f l h, (siftUp v f l h).length = l.length := by
  intro f
  induction f with
  | zero => intro l h; simp [siftUp]
  | succ f ih =>
    intro l h
    unfold siftUp
    split
    · simp
    · split
      · rw [ih]; simp
      · simp

theorem siftUp_perm (v : Entry) : ∀ f l h, h < l.length → (siftUp v f l h).Perm (l.set h v) := by
  intro f
  induction f with
  | zero => intro l h _; simp [siftUp]
  | succ f ih =>
    intro l h hl
    unfold siftUp
    split
    · exact List.Perm.refl _
    · split
      · have hp : (h - 1) / 2 < l.length := by omega
        refine (ih _ _ (by simpa using hp)).trans ?_
        exact hole_move_perm l h ((h - 1) / 2) hl hp v
      · exact List.Perm.refl _

/-- placing `v` into the hole when it is not smaller than the hole's parent gives a heap -/
theorem upInv_stop {l : List Entry} {h : Nat} {v : Entry} (hu : UpInv l h v)
    (hs : h = 0 ∨ (getE l ((h - 1) / 2)).tp ≤ v.tp) : IsHeapE (l.set h v) := by
  intro j hj0 hjl
  simp only [List.length_set] at hjl
  by_cases hjh : j = h
  · subst hjh
    rw [getE_set_eq v hu.lt, getE_set_ne v (by omega)]
    rcases hs with hs | hs
    · omega
    · exact hs
  · rw [getE_set_ne v (show h ≠ j by omega)]
    by_cases hp : (j - 1) / 2 = h
    · rw [hp, getE_set_eq v hu.lt]
      exact hu.child j hj0 hjl hp
    · rw [getE_set_ne v (show h ≠ (j - 1) / 2 by omega)]
      exact hu.away j hj0 hjl hjh hp

/-- moving the parent of the hole down keeps the invariant, with the hole at the parent's place -/
theorem upInv_move {l : List Entry} {h : Nat} {v : Entry} (hu : UpInv l h v) (h0 : 0 < h)
    (hgt : v.tp < (getE l ((h - 1) / 2)).tp) :
    UpInv (l.set h (getE l ((h - 1) / 2))) ((h - 1) / 2) v := by
  have hlt := hu.lt
  refine ⟨by simp; omega, ?_, ?_, ?_⟩
  · intro j hj0 hjl hj1 hj2
    simp only [List.length_set] at hjl
    by_cases hjh : j = h
    · subst hjh; exact absurd rfl hj2
    · rw [getE_set_ne _ (show h ≠ j by omega)]
      by_cases hp : (j - 1) / 2 = h
      · rw [hp, getE_set_eq _ hlt]
        exact hu.grand j hj0 hjl hp h0
      · rw [getE_set_ne _ (show h ≠ (j - 1) / 2 by omega)]
        exact hu.away j hj0 hjl hjh hp
  · intro j hj0 hjl hj1
    simp only [List.length_set] at hjl
    by_cases hjh : j = h
    · subst hjh; rw [getE_set_eq _ hlt]; omega
    · rw [getE_set_ne _ (show h ≠ j by omega)]
      have := hu.away j hj0 hjl hjh (by omega)
      rw [hj1] at this
      omega
  · intro j hj0 hjl hj1 hpos
    simp only [List.length_set] at hjl
    have a1 := hu.away ((h - 1) / 2) hpos (by omega) (by omega) (by omega)
    rw [getE_set_ne _ (show h ≠ ((h - 1) / 2 - 1) / 2 by omega)]
    by_cases hjh : j = h
    · subst hjh
      rw [getE_set_eq _ hlt]; exact a1
    · rw [getE_set_ne _ (show h ≠ j by omega)]
      have a2 := hu.away j hj0 hjl hjh (by omega)
      rw [hj1] at a2
      omega

theorem siftUp_heap (v : Entry) : ∀ f l h, h ≤ f → UpInv l h v → IsHeapE (siftUp v f l h) := by
  intro f
  induction f with
  | zero =>
    intro l h hf hu
    have h0 : h = 0 := by omega
    subst h0
    simp only [siftUp]
    exact upInv_stop hu (Or.inl rfl)
  | succ f ih =>
    intro l h hf hu
    unfold siftUp
    split
    · rename_i h0; exact upInv_stop hu (Or.inl h0)
    · rename_i h0
      split
      · rename_i hgt
        exact ih _ _ (by omega) (upInv_move hu (by omega) hgt)
      · rename_i hgt; exact upInv_stop hu (Or.inr (by omega))


theorem getE_append_left {l : List Entry} {j : Nat} (e : Entry) (h : j < l.length) : getE (l ++ [e]) j = getE l j := by
  unfold getE
  simp [List.getD_eq_getElem?_getD, List.getElem?_append_left h]

theorem stdPush_eq (l : List Entry) (e : Entry) :
    stdPush (l ++ [e]) = siftUp e (l.length + 1) (l ++ [e]) l.length := by
  simp [stdPush]

theorem stdPush_perm (l : List Entry) (e : Entry) : (stdPush (l ++ [e])).Perm (l ++ [e]) := by
  rw [stdPush_eq]
  have := siftUp_perm e (l.length + 1) (l ++ [e]) l.length (by simp)
  simpa using this

theorem stdPush_heap (l : List Entry) (e : Entry) (hh : IsHeapE l) : IsHeapE (stdPush (l ++ [e])) := by
  rw [stdPush_eq]
  apply siftUp_heap e _ _ _ (by omega)
  refine ⟨by simp, ?_, ?_, ?_⟩
  · intro j hj0 hjl hj1 _
    simp only [List.length_append, List.length_cons, List.length_nil] at hjl
    rw [getE_append_left e (by omega), getE_append_left e (by omega)]
    exact hh j hj0 (by omega)
  · intro j hj0 hjl hj1
    simp only [List.length_append, List.length_cons, List.length_nil] at hjl
    omega
  · intro j hj0 hjl hj1
    simp only [List.length_append, List.length_cons, List.length_nil] at hjl
    omega

/-! ### `__adjust_heap` -/

theorem siftDown_spec (len : Nat) : ∀ f l h, l.length = len → h < len → len - h ≤ f → IsHeapE l →
    (siftDown len f l h).1.length = len ∧ IsHeapE (siftDown len f l h).1 ∧
    (siftDown len f l h).2 < len ∧ (len - 1) / 2 ≤ (siftDown len f l h).2 ∧
    ∀ v, ((siftDown len f l h).1.set (siftDown len f l h).2 v).Perm (l.set h v) := by
  intro f
  induction f with
  | zero => intro l h _ hh hf; omega
  | succ f ih =>
    intro l h hl hh hf hp
    unfold siftDown
    by_cases hc : h < (len - 1) / 2
    · simp only [hc, if_true]
      -- the preferred child
      have hr : 2 * (h + 1) < len := by omega
      generalize hcdef : (if (getE l (2 * (h + 1))).tp > (getE l (2 * (h + 1) - 1)).tp then 2 * (h + 1) - 1
        else 2 * (h + 1)) = c
      have hc1 : c = 2 * h + 1 ∨ c = 2 * h + 2 := by
        rw [← hcdef]; split <;> omega
      have hcl : c < len := by omega
      have hmin : ∀ j, 0 < j → j < len → (j - 1) / 2 = h → (getE l c).tp ≤ (getE l j).tp := by
        intro j hj0 hjl hjp
        have hj : j = 2 * h + 1 ∨ j = 2 * h + 2 := by omega
        rw [← hcdef]
        have e1 : 2 * (h + 1) - 1 = 2 * h + 1 := by omega
        have e2 : 2 * (h + 1) = 2 * h + 2 := by omega
        rw [e1, e2]
        split <;> rcases hj with hj | hj <;> subst hj <;> omega
      have hheap : IsHeapE (l.set h (getE l c)) := by
        intro j hj0 hjl
        simp only [List.length_set] at hjl
        by_cases hjh : j = h
        · subst hjh
          rw [getE_set_eq _ (by omega), getE_set_ne _ (by omega)]
          have a1 := hp j hj0 (by omega)
          have a2 := hp c (by omega) (by omega)
          have : (c - 1) / 2 = j := by omega
          rw [this] at a2
          omega
        · rw [getE_set_ne _ (show h ≠ j by omega)]
          by_cases hjp : (j - 1) / 2 = h
          · rw [hjp, getE_set_eq _ (by omega)]
            exact hmin j hj0 (by omega) hjp
          · rw [getE_set_ne _ (show h ≠ (j - 1) / 2 by omega)]
            exact hp j hj0 (by omega)
      obtain ⟨r1, r2, r3, r4, r5⟩ := ih (l.set h (getE l c)) c (by simpa using hl) hcl (by omega) hheap
      refine ⟨r1, r2, r3, r4, ?_⟩
      intro v
      exact (r5 v).trans (hole_move_perm l h c (by omega) (by omega) v)
    · simp only [hc, if_false]
      exact ⟨hl, hp, hh, by omega, fun v => List.Perm.refl _⟩


theorem adjustHeap_spec (l : List Entry) (v : Entry) (hl : 0 < l.length) (hh : IsHeapE l) :
    IsHeapE (adjustHeap l v) ∧ (adjustHeap l v).Perm (l.set 0 v) := by
  obtain ⟨r1, r2, r3, r4, r5⟩ := siftDown_spec l.length l.length l 0 rfl hl (by omega) hh
  unfold adjustHeap
  cases hsd : siftDown l.length l.length l 0 with
  | mk l1 hole =>
    rw [hsd] at r1 r2 r3 r4 r5
    simp only [hsd] at r1 r2 r3 r4 r5 ⊢
    by_cases hc : l.length % 2 = 0 ∧ hole = (l.length - 2) / 2 ∧ 2 ≤ l.length
    · rw [if_pos hc]
      obtain ⟨c1, c2, c3⟩ := hc
      have hce : 2 * (hole + 1) - 1 = l.length - 1 := by omega
      rw [hce]
      have hheap : IsHeapE (l1.set hole (getE l1 (l.length - 1))) := by
        intro j hj0 hjl
        simp only [List.length_set, r1] at hjl
        by_cases hjh : j = hole
        · subst hjh
          rw [getE_set_eq _ (by omega), getE_set_ne _ (by omega)]
          have a1 := r2 j hj0 (by omega)
          have a2 := r2 (l.length - 1) (by omega) (by omega)
          have : (l.length - 1 - 1) / 2 = j := by omega
          rw [this] at a2
          omega
        · rw [getE_set_ne _ (show hole ≠ j by omega)]
          by_cases hjp : (j - 1) / 2 = hole
          · rw [hjp, getE_set_eq _ (by omega)]
            have : j = l.length - 1 := by omega
            rw [this]; exact Nat.le_refl _
          · rw [getE_set_ne _ (show hole ≠ (j - 1) / 2 by omega)]
            exact r2 j hj0 (by omega)
      constructor
      · apply siftUp_heap v _ _ _ (by omega)
        refine ⟨by simp; omega, ?_, ?_, ?_⟩
        · intro j hj0 hjl _ _; exact hheap j hj0 hjl
        · intro j hj0 hjl hjp; simp only [List.length_set, r1] at hjl; omega
        · intro j hj0 hjl hjp; simp only [List.length_set, r1] at hjl; omega
      · refine (siftUp_perm v _ _ _ (by simp; omega)).trans ?_
        exact (hole_move_perm l1 hole (l.length - 1) (by omega) (by omega) v).trans (r5 v)
    · rw [if_neg hc]
      constructor
      · apply siftUp_heap v _ _ _ (by omega)
        refine ⟨by omega, ?_, ?_, ?_⟩
        · intro j hj0 hjl _ _; exact r2 j hj0 hjl
        · intro j hj0 hjl hjp; rw [r1] at hjl; omega
        · intro j hj0 hjl hjp; rw [r1] at hjl; omega
      · exact (siftUp_perm v _ _ _ (by omega)).trans (r5 v)

theorem getE_dropLast {l : List Entry} {j : Nat} (h : j + 1 < l.length) : getE l.dropLast j = getE l j := by
  unfold getE
  simp only [List.getD_eq_getElem?_getD, List.getElem?_dropLast]
  simp [show j < l.length - 1 by omega]

theorem stdPopItem_spec (x : Entry) (xs : List Entry) (hh : IsHeapE (x :: xs)) :
    IsHeapE (stdPopItem (x :: xs)) ∧ (stdPopItem (x :: xs)).Perm xs := by
  rcases List.eq_nil_or_concat xs with rfl | ⟨ys, v, rfl⟩
  · simp only [stdPopItem, List.getLast?_singleton, List.length_cons, List.length_nil, Nat.le_refl, if_true]
    exact ⟨fun j _ hj => by simp at hj, List.Perm.refl _⟩
  · simp only [List.concat_eq_append] at hh ⊢
    have e1 : (x :: (ys ++ [v])).getLast? = some v := by
      rw [show x :: (ys ++ [v]) = (x :: ys) ++ [v] by simp, List.getLast?_concat]
    have e2 : (x :: (ys ++ [v])).dropLast = x :: ys := by
      rw [show x :: (ys ++ [v]) = (x :: ys) ++ [v] by simp, List.dropLast_concat]
    have e3 : ¬ (x :: (ys ++ [v])).length ≤ 1 := by simp
    simp only [stdPopItem, e1, e2, e3, if_false]
    have hd : IsHeapE (x :: ys) := by
      intro j hj0 hjl
      have := hh j hj0 (by simp at hjl ⊢; omega)
      rw [← e2, getE_dropLast (by simp at hjl ⊢; omega), getE_dropLast (by simp at hjl ⊢; omega)]
      exact this
    obtain ⟨a1, a2⟩ := adjustHeap_spec (x :: ys) v (by simp) hd
    refine ⟨a1, a2.trans ?_⟩
    simp only [List.set_cons_zero]
    exact (List.perm_append_comm (l₁ := [v]) (l₂ := ys))

theorem stdHeap_spec : HeapSpec stdHeap where
  push_perm := fun l e _ => stdPush_perm l e
  push_heap := fun l e h => (isHeap_iff _).mpr (stdPush_heap l e ((isHeap_iff _).mp h))
  pop_perm := fun x l h => (stdPopItem_spec x l ((isHeap_iff _).mp h)).2
  pop_heap := fun x l h => (isHeap_iff _).mpr (stdPopItem_spec x l ((isHeap_iff _).mp h)).1

end Cocls.Sched
