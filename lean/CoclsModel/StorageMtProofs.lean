import CoclsModel.StorageMt
import CoclsModel.StorageProofs
/-! Invariant of the interleaving model of `reusable_storage_mtsafe` (`StorageMt.lean`), preserved by every step of
every thread. -/
namespace Cocls.Storage.Mt
open Cocls.Storage

/-- the thread holds the shared block for growing it (it won `_busy` and its frame does not exist yet) -/
def Pc.holder : Pc → Bool
  | Pc.needDel _ _ => true
  | Pc.needNew _ _ => true
  | Pc.needUnbusy _ => true
  | _ => false

/-- the heap block the storage object owns right now -/
def owned (s : State) : List Nat := if s.dangling then [] else s.ptr.toList

structure MInv (s : State) : Prop where
  once : ∀ b, s.heap.ids.count b + s.heap.dels.count b = if b < s.heap.next then 1 else 0
  noleak : ∀ b, s.heap.ids.count b = (owned s).count b + (privBlocks s.frames).count b
  fits : ∀ f ∈ s.frames, ∃ b n, f.blk = Blk.heap b ∧ (b, n) ∈ s.heap.live ∧ f.sz + 8 ≤ n
  excl : (s.frames.map (·.blk)).Nodup
  shared_blk : ∀ f ∈ s.frames, f.priv = false → s.dangling = false ∧ ∃ p, s.ptr = some p ∧ f.blk = Blk.heap p
  ptr_live : s.dangling = false → ∀ p, s.ptr = some p → (p, s.cap) ∈ s.heap.live
  ptr_none : s.ptr = none → s.cap = 0
  holder_unique : ∀ t u, (s.pc t).holder = true → (s.pc u).holder = true → t = u
  holder_noshared : ∀ t, (s.pc t).holder = true → ∀ f ∈ s.frames, f.priv = true
  busy_iff : s.busy = true ↔ (∃ t, (s.pc t).holder = true) ∨ (∃ f ∈ s.frames, f.priv = false)
  dangling_new : s.dangling = true → ∃ t fid sz, s.pc t = Pc.needNew fid sz
  needDel_ptr : ∀ t fid sz, s.pc t = Pc.needDel fid sz → s.dangling = false ∧ ∃ p, s.ptr = some p
  needNew_ptr : ∀ t fid sz, s.pc t = Pc.needNew fid sz → s.dangling = true ∨ s.ptr = none

theorem minv_init : MInv init := by
  refine ⟨?_, ?_, ?_, ?_, ?_, ?_, ?_, ?_, ?_, ?_, ?_, ?_, ?_⟩ <;> simp [init, Heap.ids, privBlocks, owned, Pc.holder]

theorem MInv.count_le_one {s : State} (h : MInv s) (b : Nat) : s.heap.ids.count b ≤ 1 := by
  have := h.once b; split at this <;> omega

theorem MInv.fresh {s : State} (h : MInv s) :
    s.heap.ids.count s.heap.next = 0 ∧ s.heap.dels.count s.heap.next = 0 ∧ (owned s).count s.heap.next = 0 ∧
    (privBlocks s.frames).count s.heap.next = 0 := by
  have h1 := h.once s.heap.next
  have h2 := h.noleak s.heap.next
  simp at h1
  omega

theorem MInv.lt_of_mem_ids {s : State} (h : MInv s) {b : Nat} (hb : b ∈ s.heap.ids) : b < s.heap.next := by
  have h1 := h.once b
  have h2 : 0 < s.heap.ids.count b := List.count_pos_iff.mpr hb
  split at h1 <;> omega

theorem MInv.fresh_not_frame {s : State} (h : MInv s) : Blk.heap s.heap.next ∉ s.frames.map (·.blk) := by
  intro hm
  obtain ⟨f, hf, hb⟩ := List.mem_map.mp hm
  obtain ⟨b, n, hb', hn, _⟩ := h.fits f hf
  rw [hb'] at hb
  injection hb with hb
  subst hb
  have := h.lt_of_mem_ids (mem_ids_of_mem_live hn)
  omega

/-- no thread holds the block and no frame lives in it -/
theorem MInv.free_block {s : State} (h : MInv s) (hb : s.busy = false) :
    (∀ t, (s.pc t).holder = false) ∧ (∀ f ∈ s.frames, f.priv = true) ∧ s.dangling = false := by
  have h1 : ¬ ((∃ t, (s.pc t).holder = true) ∨ (∃ f ∈ s.frames, f.priv = false)) := by
    intro hc; have := h.busy_iff.mpr hc; rw [hb] at this; cases this
  refine ⟨?_, ?_, ?_⟩
  · intro t
    cases hh : (s.pc t).holder with
    | false => rfl
    | true => exact absurd (Or.inl ⟨t, hh⟩) h1
  · intro f hf
    cases hp : f.priv with
    | true => rfl
    | false => exact absurd (Or.inr ⟨f, hf, hp⟩) h1
  · cases hd : s.dangling with
    | false => rfl
    | true =>
      obtain ⟨t, fid, sz, ht⟩ := h.dangling_new hd
      exact absurd (Or.inl ⟨t, by rw [ht]; rfl⟩) h1

/-- a thread that does not hold the block moves to another non-holding pc; nothing else changes -/
theorem minv_pc_nonholder {s s' : State} (h : MInv s) (t : Nat) (p : Pc) (hp : p.holder = false)
    (ht : (s.pc t).holder = false)
    (hheap : s'.heap = s.heap) (hfr : s'.frames = s.frames) (hptr : s'.ptr = s.ptr) (hcap : s'.cap = s.cap)
    (hbusy : s'.busy = s.busy) (hdang : s'.dangling = s.dangling)
    (hpc : ∀ u, s'.pc u = if u = t then p else s.pc u) : MInv s' := by
  have hne : ∀ u, (s'.pc u).holder = true → u ≠ t ∧ s'.pc u = s.pc u := by
    intro u hu
    rw [hpc u] at hu
    by_cases e : u = t
    · simp only [e, if_true] at hu; rw [hp] at hu; cases hu
    · exact ⟨e, by rw [hpc u]; simp [e]⟩
  have hold : ∀ u, (s.pc u).holder = true → s'.pc u = s.pc u := by
    intro u hu
    rw [hpc u]
    by_cases e : u = t
    · subst e; rw [ht] at hu; cases hu
    · simp [e]
  refine ⟨?_, ?_, ?_, ?_, ?_, ?_, ?_, ?_, ?_, ?_, ?_, ?_, ?_⟩
  · rw [hheap]; exact h.once
  · intro b; rw [hheap, hfr]; simp only [owned, hdang, hptr]; exact h.noleak b
  · rw [hheap, hfr]; exact h.fits
  · rw [hfr]; exact h.excl
  · rw [hfr, hdang, hptr]; exact h.shared_blk
  · rw [hdang, hptr, hcap, hheap]; exact h.ptr_live
  · rw [hptr, hcap]; exact h.ptr_none
  · intro u v hu hv
    have h1 := hne u hu; have h2 := hne v hv
    rw [h1.2] at hu; rw [h2.2] at hv
    exact h.holder_unique u v hu hv
  · intro u hu
    have h1 := hne u hu
    rw [h1.2] at hu; rw [hfr]
    exact h.holder_noshared u hu
  · rw [hbusy, h.busy_iff, hfr]
    constructor
    · rintro (⟨u, hu⟩ | hx)
      · exact Or.inl ⟨u, by rw [hold u hu]; exact hu⟩
      · exact Or.inr hx
    · rintro (⟨u, hu⟩ | hx)
      · exact Or.inl ⟨u, by rw [← (hne u hu).2]; exact hu⟩
      · exact Or.inr hx
  · intro hd
    rw [hdang] at hd
    obtain ⟨u, fid, sz, hu⟩ := h.dangling_new hd
    exact ⟨u, fid, sz, by rw [hold u (by rw [hu]; rfl)]; exact hu⟩
  · intro u fid sz hu
    have h1 := hne u (by rw [hu]; rfl)
    rw [h1.2] at hu
    rw [hdang, hptr]
    exact h.needDel_ptr u fid sz hu
  · intro u fid sz hu
    have h1 := hne u (by rw [hu]; rfl)
    rw [h1.2] at hu
    rw [hdang, hptr]
    exact h.needNew_ptr u fid sz hu

/-- a thread wins `_busy` and has to grow the block first -/
theorem minv_win {s s' : State} (h : MInv s) (t : Nat) (p : Pc) (hb : s.busy = false) (hp : p.holder = true)
    (hdel : ∀ fid sz, p = Pc.needDel fid sz → ∃ q, s.ptr = some q)
    (hnew : ∀ fid sz, p = Pc.needNew fid sz → s.ptr = none)
    (hheap : s'.heap = s.heap) (hfr : s'.frames = s.frames) (hptr : s'.ptr = s.ptr) (hcap : s'.cap = s.cap)
    (hbusy : s'.busy = true) (hdang : s'.dangling = s.dangling)
    (hpc : ∀ u, s'.pc u = if u = t then p else s.pc u) : MInv s' := by
  obtain ⟨hnoh, hallp, hnd⟩ := h.free_block hb
  have honly : ∀ u, (s'.pc u).holder = true → u = t := by
    intro u hu
    rw [hpc u] at hu
    by_cases e : u = t
    · exact e
    · simp only [e, if_false] at hu; rw [hnoh u] at hu; cases hu
  refine ⟨?_, ?_, ?_, ?_, ?_, ?_, ?_, ?_, ?_, ?_, ?_, ?_, ?_⟩
  · rw [hheap]; exact h.once
  · intro b; rw [hheap, hfr]; simp only [owned, hdang, hptr]; exact h.noleak b
  · rw [hheap, hfr]; exact h.fits
  · rw [hfr]; exact h.excl
  · rw [hfr, hdang, hptr]; exact h.shared_blk
  · rw [hdang, hptr, hcap, hheap]; exact h.ptr_live
  · rw [hptr, hcap]; exact h.ptr_none
  · intro u v hu hv; rw [honly u hu, honly v hv]
  · intro u _; rw [hfr]; exact hallp
  · rw [hbusy]
    simp only [true_iff]
    exact Or.inl ⟨t, by rw [hpc t]; simp [hp]⟩
  · intro hd; rw [hdang, hnd] at hd; cases hd
  · intro u fid sz hu
    have e := honly u (by rw [hu]; rfl)
    subst e
    rw [hpc u] at hu
    simp only [if_true] at hu
    rw [hdang, hptr]
    exact ⟨hnd, hdel fid sz hu⟩
  · intro u fid sz hu
    have e := honly u (by rw [hu]; rfl)
    subst e
    rw [hpc u] at hu
    simp only [if_true] at hu
    rw [hptr]
    exact Or.inr (hnew fid sz hu)

theorem owned_count_ptr {s : State} (h : MInv s) (hd : s.dangling = false) {p : Nat} (hp : s.ptr = some p) :
    s.heap.ids.count p = 1 ∧ s.heap.dels.count p = 0 ∧ (privBlocks s.frames).count p = 0 ∧ p < s.heap.next := by
  have h1 := h.once p
  have h2 := h.noleak p
  have h3 : p ∈ s.heap.ids := mem_ids_of_mem_live (h.ptr_live hd p hp)
  have h4 := h.lt_of_mem_ids h3
  have h5 : 0 < s.heap.ids.count p := List.count_pos_iff.mpr h3
  simp only [owned, hd, hp, Option.toList, List.count_cons, List.count_nil, beq_self_eq_true, if_true, Bool.false_eq_true,
    if_false] at h2
  rw [if_pos h4] at h1
  omega

theorem priv_ne_ptr {s : State} (h : MInv s) (hd : s.dangling = false) {p : Nat} (hp : s.ptr = some p) {f : Frame}
    (hf : f ∈ s.frames) (hpr : f.priv = true) : f.blk ≠ Blk.heap p := by
  intro hb
  have := (owned_count_ptr h hd hp).2.2.1
  have h2 : p ∈ privBlocks s.frames := mem_privBlocks hf hpr hb
  have := List.count_pos_iff.mpr h2
  omega

/-- the block is free and large enough: the thread wins `_busy` and its frame is placed in the block at once -/
theorem minv_win_reuse {s s' : State} (h : MInv s) (fid sz : Nat) (hb : s.busy = false) (hfit : sz + 8 ≤ s.cap)
    (hheap : s'.heap = s.heap)
    (hfr : s'.frames = s.frames ++ [⟨fid, (match s.ptr with | some b => Blk.heap b | none => Blk.null), sz, false⟩])
    (hptr : s'.ptr = s.ptr) (hcap : s'.cap = s.cap)
    (hbusy : s'.busy = true) (hdang : s'.dangling = s.dangling) (hpc : s'.pc = s.pc) : MInv s' := by
  obtain ⟨hnoh, hallp, hnd⟩ := h.free_block hb
  obtain ⟨p, hp⟩ : ∃ p, s.ptr = some p := by
    cases hq : s.ptr with
    | none => have := h.ptr_none hq; omega
    | some p => exact ⟨p, rfl⟩
  simp only [hp] at hfr
  refine ⟨?_, ?_, ?_, ?_, ?_, ?_, ?_, ?_, ?_, ?_, ?_, ?_, ?_⟩
  · rw [hheap]; exact h.once
  · intro b
    rw [hheap, hfr, privBlocks_append]
    simp only [owned, hdang, hptr, privBlocks_single_shared, List.append_nil]
    exact h.noleak b
  · intro f hf
    rw [hfr] at hf; rw [hheap]
    rcases List.mem_append.mp hf with h1 | h1
    · exact h.fits f h1
    · simp at h1; subst h1
      exact ⟨p, s.cap, rfl, h.ptr_live hnd p hp, hfit⟩
  · rw [hfr]
    simp only [List.map_append, List.map_cons, List.map_nil]
    rw [List.nodup_append]
    refine ⟨h.excl, by simp, ?_⟩
    intro a ha b hb'
    simp at hb'; subst hb'
    intro e; subst e
    obtain ⟨f, hf, hfb⟩ := List.mem_map.mp ha
    exact priv_ne_ptr h hnd hp hf (hallp f hf) hfb
  · intro f hf hq
    rw [hfr] at hf
    rcases List.mem_append.mp hf with h1 | h1
    · rw [hallp f h1] at hq; cases hq
    · simp at h1; subst h1
      rw [hdang, hptr]
      exact ⟨hnd, p, hp, rfl⟩
  · rw [hdang, hptr, hcap, hheap]; exact h.ptr_live
  · rw [hptr, hcap]; exact h.ptr_none
  · intro u v hu _; rw [hpc, hnoh u] at hu; cases hu
  · intro u hu; rw [hpc, hnoh u] at hu; cases hu
  · rw [hbusy, hfr]
    simp
  · intro hd; rw [hdang, hnd] at hd; cases hd
  · intro u fid' sz' hu
    rw [hpc] at hu
    have := hnoh u; rw [hu] at this; cases this
  · intro u fid' sz' hu
    rw [hpc] at hu
    have := hnoh u; rw [hu] at this; cases this

/-- growth, first half: the holder deletes the old block; `_ptr` keeps its address -/
theorem minv_go_del {s s' : State} (h : MInv s) (t fid sz : Nat) (ht : s.pc t = Pc.needDel fid sz)
    (hheap : s'.heap = s.heap.delOpt s.ptr) (hfr : s'.frames = s.frames) (hptr : s'.ptr = s.ptr) (hcap : s'.cap = s.cap)
    (hbusy : s'.busy = s.busy) (hdang : s'.dangling = true)
    (hpc : ∀ u, s'.pc u = if u = t then Pc.needNew fid sz else s.pc u) : MInv s' := by
  obtain ⟨hnd, p, hp⟩ := h.needDel_ptr t fid sz ht
  have hth : (s.pc t).holder = true := by rw [ht]; rfl
  have hallp := h.holder_noshared t hth
  obtain ⟨c1, c2, c3, c4⟩ := owned_count_ptr h hnd hp
  have hhold : ∀ u, (s'.pc u).holder = true ↔ (s.pc u).holder = true := by
    intro u
    rw [hpc u]
    by_cases e : u = t
    · subst e; simp only [if_true]; rw [hth]; simp [Pc.holder]
    · simp [e]
  rw [hp] at hheap
  simp only [Heap.delOpt] at hheap
  refine ⟨?_, ?_, ?_, ?_, ?_, ?_, ?_, ?_, ?_, ?_, ?_, ?_, ?_⟩
  · intro b
    have h1 := h.once b
    rw [hheap]
    simp only [Heap.ids_del, Heap.del_dels, Heap.del_next, List.count_append, List.count_cons, List.count_nil, beq_iff_eq,
      count_filter_ne]
    by_cases hbp : b = p
    · subst hbp; simp only [if_true]; rw [if_pos c4]; omega
    · have : ¬ p = b := fun e => hbp e.symm
      simp only [hbp, this, if_false]
      count_omega h1
  · intro b
    have h1 := h.noleak b
    simp only [owned, hnd, hp, Option.toList, Bool.false_eq_true, if_false, List.count_cons, List.count_nil, beq_iff_eq] at h1
    rw [hheap, hfr]
    simp only [owned, hdang, if_true, List.count_nil, Heap.ids_del, count_filter_ne]
    by_cases hbp : b = p
    · subst hbp; simp only [if_true]; omega
    · have : ¬ p = b := fun e => hbp e.symm
      simp only [hbp, this, if_false] at h1 ⊢
      omega
  · intro f hf
    rw [hfr] at hf
    obtain ⟨b, n, hb, hn, hle⟩ := h.fits f hf
    refine ⟨b, n, hb, ?_, hle⟩
    rw [hheap]
    apply mem_live_del hn
    intro e; subst e
    exact priv_ne_ptr h hnd hp hf (hallp f hf) hb
  · rw [hfr]; exact h.excl
  · intro f hf hq
    rw [hfr] at hf
    rw [hallp f hf] at hq; cases hq
  · intro hd; rw [hdang] at hd; cases hd
  · rw [hptr, hcap]; exact h.ptr_none
  · intro u v hu hv
    exact h.holder_unique u v ((hhold u).mp hu) ((hhold v).mp hv)
  · intro u hu; rw [hfr]; exact h.holder_noshared u ((hhold u).mp hu)
  · rw [hbusy, h.busy_iff, hfr]
    constructor
    · rintro (⟨u, hu⟩ | hx)
      · exact Or.inl ⟨u, (hhold u).mpr hu⟩
      · exact Or.inr hx
    · rintro (⟨u, hu⟩ | hx)
      · exact Or.inl ⟨u, (hhold u).mp hu⟩
      · exact Or.inr hx
  · intro _; exact ⟨t, fid, sz, by rw [hpc t]; simp⟩
  · intro u fid' sz' hu
    rw [hpc u] at hu
    by_cases e : u = t
    · simp only [e, if_true] at hu; cases hu
    · simp only [e, if_false] at hu
      have := h.holder_unique u t (by rw [hu]; rfl) hth
      exact absurd this e
  · intro u fid' sz' _
    exact Or.inl hdang

/-- growth, second half: the holder obtains the new block, publishes it in `_ptr`, its frame lives in it -/
theorem minv_go_new {s s' : State} (h : MInv s) (t fid sz : Nat) (ht : s.pc t = Pc.needNew fid sz)
    (hheap : s'.heap = s.heap.new (sz + 8))
    (hfr : s'.frames = s.frames ++ [⟨fid, Blk.heap s.heap.next, sz, false⟩])
    (hptr : s'.ptr = some s.heap.next) (hcap : s'.cap = sz + 8)
    (hbusy : s'.busy = s.busy) (hdang : s'.dangling = false)
    (hpc : ∀ u, s'.pc u = if u = t then Pc.idle else s.pc u) : MInv s' := by
  have hth : (s.pc t).holder = true := by rw [ht]; rfl
  have hallp := h.holder_noshared t hth
  have hown : owned s = [] := by
    rcases h.needNew_ptr t fid sz ht with hd | hn
    · simp [owned, hd]
    · simp [owned, hn]
  obtain ⟨f1, f2, f3, f4⟩ := h.fresh
  have hnoh : ∀ u, (s'.pc u).holder = false := by
    intro u
    rw [hpc u]
    by_cases e : u = t
    · simp [e, Pc.holder]
    · simp only [e, if_false]
      cases hh : (s.pc u).holder with
      | false => rfl
      | true => exact absurd (h.holder_unique u t hh hth) e
  have hbt : s.busy = true := h.busy_iff.mpr (Or.inl ⟨t, hth⟩)
  refine ⟨?_, ?_, ?_, ?_, ?_, ?_, ?_, ?_, ?_, ?_, ?_, ?_, ?_⟩
  · intro b
    have h1 := h.once b
    rw [hheap]
    simp only [Heap.ids_new, Heap.new_dels, Heap.new_next, List.count_append, List.count_cons, List.count_nil, beq_iff_eq]
    by_cases hb : b = s.heap.next
    · subst hb; simp [f1, f2]
    · have : ¬ s.heap.next = b := fun e => hb e.symm
      simp only [this, if_false]
      count_omega h1
  · intro b
    have h1 := h.noleak b
    rw [hown] at h1
    rw [hheap, hfr, privBlocks_append]
    simp only [owned, hdang, hptr, Option.toList, Bool.false_eq_true, if_false, Heap.ids_new, List.count_append,
      List.count_cons, List.count_nil, beq_iff_eq, privBlocks_single_shared]
    simp only [List.count_nil] at h1
    omega
  · intro f hf
    rw [hfr] at hf; rw [hheap]
    rcases List.mem_append.mp hf with h1 | h1
    · obtain ⟨b, n, hb, hn, hle⟩ := h.fits f h1
      exact ⟨b, n, hb, mem_live_new hn, hle⟩
    · simp at h1; subst h1
      exact ⟨s.heap.next, sz + 8, rfl, by simp, Nat.le_refl _⟩
  · rw [hfr]
    simp only [List.map_append, List.map_cons, List.map_nil]
    rw [List.nodup_append]
    refine ⟨h.excl, by simp, ?_⟩
    intro a ha b hb
    simp at hb; subst hb
    intro e; subst e
    exact h.fresh_not_frame ha
  · intro f hf hq
    rw [hfr] at hf
    rcases List.mem_append.mp hf with h1 | h1
    · rw [hallp f h1] at hq; cases hq
    · simp at h1; subst h1
      exact ⟨hdang, s.heap.next, hptr, rfl⟩
  · intro _ p hp
    rw [hptr] at hp; injection hp with hp; subst hp
    rw [hcap, hheap]; simp
  · intro hp; rw [hptr] at hp; cases hp
  · intro u v hu _; rw [hnoh u] at hu; cases hu
  · intro u hu; rw [hnoh u] at hu; cases hu
  · rw [hbusy, hbt, hfr]
    simp
  · intro hd; rw [hdang] at hd; cases hd
  · intro u fid' sz' hu
    have := hnoh u; rw [hu] at this; cases this
  · intro u fid' sz' hu
    have := hnoh u; rw [hu] at this; cases this

/-- the thread that lost `_busy` obtains its private block; its frame lives there -/
theorem minv_go_priv {s s' : State} (h : MInv s) (t fid sz : Nat) (ht : s.pc t = Pc.needPriv fid sz)
    (hheap : s'.heap = s.heap.new (sz + 8))
    (hfr : s'.frames = s.frames ++ [⟨fid, Blk.heap s.heap.next, sz, true⟩])
    (hptr : s'.ptr = s.ptr) (hcap : s'.cap = s.cap)
    (hbusy : s'.busy = s.busy) (hdang : s'.dangling = s.dangling)
    (hpc : ∀ u, s'.pc u = if u = t then Pc.idle else s.pc u) : MInv s' := by
  -- first the pc change (no holder involved), then the new private frame
  have hth : (s.pc t).holder = false := by rw [ht]; rfl
  have h0 : MInv { s with pc := s'.pc } :=
    minv_pc_nonholder h t Pc.idle rfl hth rfl rfl rfl rfl rfl rfl hpc
  obtain ⟨f1, f2, f3, f4⟩ := h.fresh
  refine ⟨?_, ?_, ?_, ?_, ?_, ?_, ?_, h0.holder_unique, ?_, ?_, ?_, ?_, ?_⟩
  · intro b
    have h1 := h.once b
    rw [hheap]
    simp only [Heap.ids_new, Heap.new_dels, Heap.new_next, List.count_append, List.count_cons, List.count_nil, beq_iff_eq]
    by_cases hb : b = s.heap.next
    · subst hb; simp [f1, f2]
    · have : ¬ s.heap.next = b := fun e => hb e.symm
      simp only [this, if_false]
      count_omega h1
  · intro b
    have h1 := h.noleak b
    rw [hheap, hfr, privBlocks_append]
    simp only [owned, hdang, hptr, Heap.ids_new, List.count_append, List.count_cons, List.count_nil, beq_iff_eq,
      privBlocks_single_priv] at h1 ⊢
    omega
  · intro f hf
    rw [hfr] at hf; rw [hheap]
    rcases List.mem_append.mp hf with h1 | h1
    · obtain ⟨b, n, hb, hn, hle⟩ := h.fits f h1
      exact ⟨b, n, hb, mem_live_new hn, hle⟩
    · simp at h1; subst h1
      exact ⟨s.heap.next, sz + 8, rfl, by simp, Nat.le_refl _⟩
  · rw [hfr]
    simp only [List.map_append, List.map_cons, List.map_nil]
    rw [List.nodup_append]
    refine ⟨h.excl, by simp, ?_⟩
    intro a ha b hb
    simp at hb; subst hb
    intro e; subst e
    exact h.fresh_not_frame ha
  · intro f hf hq
    rw [hfr] at hf
    rcases List.mem_append.mp hf with h1 | h1
    · rw [hdang, hptr]; exact h.shared_blk f h1 hq
    · simp at h1; subst h1; cases hq
  · intro hd p hp
    rw [hdang] at hd; rw [hptr] at hp
    rw [hcap, hheap]
    exact mem_live_new (h.ptr_live hd p hp)
  · rw [hptr, hcap]; exact h.ptr_none
  · intro u hu f hf
    rw [hfr] at hf
    rcases List.mem_append.mp hf with h1 | h1
    · exact h0.holder_noshared u hu f h1
    · simp at h1; subst h1; rfl
  · rw [hbusy]
    have := h0.busy_iff
    simp only [] at this
    rw [this, hfr]
    constructor
    · rintro (hx | ⟨f, hf, hq⟩)
      · exact Or.inl hx
      · exact Or.inr ⟨f, List.mem_append_left _ hf, hq⟩
    · rintro (hx | ⟨f, hf, hq⟩)
      · exact Or.inl hx
      · rcases List.mem_append.mp hf with h1 | h1
        · exact Or.inr ⟨f, h1, hq⟩
        · simp at h1; subst h1; cases hq
  · rw [hdang]; exact h0.dangling_new
  · rw [hdang, hptr]; exact h0.needDel_ptr
  · rw [hdang, hptr]; exact h0.needNew_ptr

/-- `dealloc` of a frame whose trailer is null: its private block is deleted -/
theorem minv_free_priv {s s' : State} (h : MInv s) (f : Frame) (hf : f ∈ s.frames) (hp : f.priv = true)
    (hheap : s'.heap = (match f.blk with | Blk.heap b => s.heap.del b | _ => s.heap))
    (hfr : s'.frames = s.frames.erase f) (hptr : s'.ptr = s.ptr) (hcap : s'.cap = s.cap)
    (hbusy : s'.busy = s.busy) (hdang : s'.dangling = s.dangling) (hpc : s'.pc = s.pc) : MInv s' := by
  obtain ⟨b, n, hb, hn, hle⟩ := h.fits f hf
  simp only [hb] at hheap
  have hpb : privBlocks [f] = [b] := by simp [privBlocks, Frame.privBlk?, hp, hb]
  have hcnt : ∀ x, (privBlocks s.frames).count x = (if b = x then 1 else 0) + (privBlocks (s.frames.erase f)).count x := by
    intro x
    rw [privBlocks_erase_count hf x, hpb]
    simp [List.count_cons]
  have hbi : s.heap.ids.count b = 1 := by
    have h1 := h.count_le_one b
    have h3 : 0 < s.heap.ids.count b := List.count_pos_iff.mpr (mem_ids_of_mem_live hn)
    omega
  have hbd : s.heap.dels.count b = 0 ∧ b < s.heap.next := by
    have h1 := h.once b
    split at h1 <;> omega
  have hown : (owned s).count b = 0 := by
    have h2 := h.noleak b
    have h3 := hcnt b
    simp only [if_true] at h3
    omega
  have hother : ∀ g ∈ s.frames.erase f, g.blk ≠ Blk.heap b := by
    intro g hg e
    have := blk_notin_erase h.excl hf
    rw [hb] at this
    exact this (List.mem_map.mpr ⟨g, hg, e⟩)
  refine ⟨?_, ?_, ?_, ?_, ?_, ?_, ?_, ?_, ?_, ?_, ?_, ?_, ?_⟩
  · intro x
    have h1 := h.once x
    rw [hheap]
    simp only [Heap.ids_del, Heap.del_dels, Heap.del_next, List.count_append, List.count_cons, List.count_nil, beq_iff_eq,
      count_filter_ne]
    by_cases hx : x = b
    · subst hx; simp only [if_true]; rw [if_pos hbd.2]; omega
    · have : ¬ b = x := fun e => hx e.symm
      simp only [hx, this, if_false]
      count_omega h1
  · intro x
    have h1 := h.noleak x
    have h2 := hcnt x
    have e : owned s' = owned s := by simp only [owned, hdang, hptr]
    rw [hheap, hfr, e]
    simp only [Heap.ids_del, count_filter_ne]
    by_cases hx : x = b
    · subst hx
      simp only [if_true] at h2 ⊢
      omega
    · have : ¬ b = x := fun e => hx e.symm
      simp only [hx, this, if_false] at h2 ⊢
      omega
  · intro g hg
    rw [hfr] at hg
    obtain ⟨c, m, hc, hm, hle'⟩ := h.fits g (List.mem_of_mem_erase hg)
    refine ⟨c, m, hc, ?_, hle'⟩
    rw [hheap]
    apply mem_live_del hm
    intro e; subst e
    exact hother g hg hc
  · rw [hfr]; exact h.excl.sublist ((List.erase_sublist).map _)
  · intro g hg hq; rw [hfr] at hg; rw [hdang, hptr]; exact h.shared_blk g (List.mem_of_mem_erase hg) hq
  · intro hd p hq
    rw [hdang] at hd; rw [hptr] at hq
    rw [hcap, hheap]
    apply mem_live_del (h.ptr_live hd p hq)
    intro e; subst e
    simp [owned, hd, hq] at hown
  · rw [hptr, hcap]; exact h.ptr_none
  · rw [hpc]; exact h.holder_unique
  · intro u hu g hg; rw [hpc] at hu; rw [hfr] at hg
    exact h.holder_noshared u hu g (List.mem_of_mem_erase hg)
  · rw [hbusy, h.busy_iff, hfr, hpc]
    constructor
    · rintro (hx | ⟨g, hg, hq⟩)
      · exact Or.inl hx
      · refine Or.inr ⟨g, ?_, hq⟩
        apply (List.mem_erase_of_ne _).mpr hg
        intro e; subst e; rw [hp] at hq; cases hq
    · rintro (hx | ⟨g, hg, hq⟩)
      · exact Or.inl hx
      · exact Or.inr ⟨g, List.mem_of_mem_erase hg, hq⟩
  · rw [hdang, hpc]; exact h.dangling_new
  · rw [hdang, hptr, hpc]; exact h.needDel_ptr
  · rw [hdang, hptr, hpc]; exact h.needNew_ptr

/-- `dealloc` of the frame in the shared block (trailer names the owner): `_busy` is cleared, no heap call -/
theorem minv_free_shared {s s' : State} (h : MInv s) (f : Frame) (hf : f ∈ s.frames) (hp : f.priv = false)
    (hheap : s'.heap = s.heap) (hfr : s'.frames = s.frames.erase f) (hptr : s'.ptr = s.ptr) (hcap : s'.cap = s.cap)
    (hbusy : s'.busy = false) (hdang : s'.dangling = s.dangling) (hpc : s'.pc = s.pc) : MInv s' := by
  have hpb : privBlocks [f] = [] := by simp [privBlocks, Frame.privBlk?, hp]
  have hnoh : ∀ u, (s.pc u).holder = false := by
    intro u
    cases hh : (s.pc u).holder with
    | false => rfl
    | true => have := h.holder_noshared u hh f hf; rw [hp] at this; cases this
  have hnoshared : ∀ g ∈ s.frames.erase f, g.priv = true := by
    intro g hg
    cases hq : g.priv with
    | true => rfl
    | false =>
      exfalso
      obtain ⟨_, p, hp1, hb1⟩ := h.shared_blk f hf hp
      obtain ⟨_, q, hp2, hb2⟩ := h.shared_blk g (List.mem_of_mem_erase hg) hq
      rw [hp1] at hp2; injection hp2 with hp2; subst hp2
      have := blk_notin_erase h.excl hf
      rw [hb1, ← hb2] at this
      exact this (List.mem_map.mpr ⟨g, hg, rfl⟩)
  refine ⟨?_, ?_, ?_, ?_, ?_, ?_, ?_, ?_, ?_, ?_, ?_, ?_, ?_⟩
  · rw [hheap]; exact h.once
  · intro x
    have h1 := h.noleak x
    rw [privBlocks_erase_count hf x, hpb] at h1
    have e : owned s' = owned s := by simp only [owned, hdang, hptr]
    rw [hheap, hfr, e]
    simpa using h1
  · intro g hg; rw [hfr] at hg; rw [hheap]; exact h.fits g (List.mem_of_mem_erase hg)
  · rw [hfr]; exact h.excl.sublist ((List.erase_sublist).map _)
  · intro g hg hq; rw [hfr] at hg; rw [hnoshared g hg] at hq; cases hq
  · rw [hdang, hptr, hcap, hheap]; exact h.ptr_live
  · rw [hptr, hcap]; exact h.ptr_none
  · rw [hpc]; exact h.holder_unique
  · intro u hu; rw [hpc, hnoh u] at hu; cases hu
  · rw [hbusy, hfr, hpc]
    constructor
    · intro e; cases e
    · rintro (⟨u, hu⟩ | ⟨g, hg, hq⟩)
      · rw [hnoh u] at hu; cases hu
      · rw [hnoshared g hg] at hq; cases hq
  · rw [hdang, hpc]; exact h.dangling_new
  · rw [hdang, hptr, hpc]; exact h.needDel_ptr
  · rw [hdang, hptr, hpc]; exact h.needNew_ptr

/-- growth, second half, `operator new` throws: the holder empties the storage (it still holds `_busy`) -/
theorem minv_go_fail_new {s s' : State} (h : MInv s) (t fid sz : Nat) (ht : s.pc t = Pc.needNew fid sz)
    (hheap : s'.heap = s.heap) (hfr : s'.frames = s.frames) (hptr : s'.ptr = none) (hcap : s'.cap = 0)
    (hbusy : s'.busy = s.busy) (hdang : s'.dangling = false)
    (hpc : ∀ u, s'.pc u = if u = t then Pc.needUnbusy fid else s.pc u) : MInv s' := by
  have hth : (s.pc t).holder = true := by rw [ht]; rfl
  have hallp := h.holder_noshared t hth
  have hown : owned s = [] := by
    rcases h.needNew_ptr t fid sz ht with hd | hn
    · simp [owned, hd]
    · simp [owned, hn]
  have hhold : ∀ u, (s'.pc u).holder = true ↔ (s.pc u).holder = true := by
    intro u
    rw [hpc u]
    by_cases e : u = t
    · subst e; simp only [if_true]; rw [hth]; simp [Pc.holder]
    · simp [e]
  have honly : ∀ u, (s'.pc u).holder = true → u = t := fun u hu => h.holder_unique u t ((hhold u).mp hu) hth
  refine ⟨?_, ?_, ?_, ?_, ?_, ?_, ?_, ?_, ?_, ?_, ?_, ?_, ?_⟩
  · rw [hheap]; exact h.once
  · intro b
    have h1 := h.noleak b
    rw [hown] at h1
    rw [hheap, hfr]
    simp only [owned, hdang, hptr, Option.toList, Bool.false_eq_true, if_false]
    exact h1
  · rw [hheap, hfr]; exact h.fits
  · rw [hfr]; exact h.excl
  · intro f hf hq; rw [hfr] at hf; rw [hallp f hf] at hq; cases hq
  · intro _ p hp; rw [hptr] at hp; cases hp
  · intro _; exact hcap
  · intro u v hu hv; exact h.holder_unique u v ((hhold u).mp hu) ((hhold v).mp hv)
  · intro u hu; rw [hfr]; exact h.holder_noshared u ((hhold u).mp hu)
  · rw [hbusy, h.busy_iff, hfr]
    constructor
    · rintro (⟨u, hu⟩ | hx)
      · exact Or.inl ⟨u, (hhold u).mpr hu⟩
      · exact Or.inr hx
    · rintro (⟨u, hu⟩ | hx)
      · exact Or.inl ⟨u, (hhold u).mp hu⟩
      · exact Or.inr hx
  · intro hd; rw [hdang] at hd; cases hd
  · intro u fid' sz' hu
    have e := honly u (by rw [hu]; rfl)
    subst e
    rw [hpc u] at hu; simp at hu
  · intro u fid' sz' hu
    have e := honly u (by rw [hu]; rfl)
    subst e
    rw [hpc u] at hu; simp at hu

/-- … and then gives `_busy` back: nobody holds the block, no frame lives in it -/
theorem minv_go_unbusy {s s' : State} (h : MInv s) (t fid : Nat) (ht : s.pc t = Pc.needUnbusy fid)
    (hheap : s'.heap = s.heap) (hfr : s'.frames = s.frames) (hptr : s'.ptr = s.ptr) (hcap : s'.cap = s.cap)
    (hbusy : s'.busy = false) (hdang : s'.dangling = s.dangling)
    (hpc : ∀ u, s'.pc u = if u = t then Pc.idle else s.pc u) : MInv s' := by
  have hth : (s.pc t).holder = true := by rw [ht]; rfl
  have hallp := h.holder_noshared t hth
  have hnd : s.dangling = false := by
    cases hd : s.dangling with
    | false => rfl
    | true =>
      obtain ⟨u, f', z', hu⟩ := h.dangling_new hd
      have := h.holder_unique u t (by rw [hu]; rfl) hth
      subst this; rw [ht] at hu; cases hu
  have hnoh : ∀ u, (s'.pc u).holder = false := by
    intro u
    rw [hpc u]
    by_cases e : u = t
    · simp [e, Pc.holder]
    · simp only [e, if_false]
      cases hh : (s.pc u).holder with
      | false => rfl
      | true => exact absurd (h.holder_unique u t hh hth) e
  refine ⟨?_, ?_, ?_, ?_, ?_, ?_, ?_, ?_, ?_, ?_, ?_, ?_, ?_⟩
  · rw [hheap]; exact h.once
  · intro b; rw [hheap, hfr]; simp only [owned, hdang, hptr]; exact h.noleak b
  · rw [hheap, hfr]; exact h.fits
  · rw [hfr]; exact h.excl
  · intro f hf hq; rw [hfr] at hf; rw [hallp f hf] at hq; cases hq
  · rw [hdang, hptr, hcap, hheap]; exact h.ptr_live
  · rw [hptr, hcap]; exact h.ptr_none
  · intro u v hu _; rw [hnoh u] at hu; cases hu
  · intro u hu; rw [hnoh u] at hu; cases hu
  · rw [hbusy, hfr]
    constructor
    · intro e; cases e
    · rintro (⟨u, hu⟩ | ⟨f, hf, hq⟩)
      · rw [hnoh u] at hu; cases hu
      · rw [hallp f hf] at hq; cases hq
  · intro hd; rw [hdang, hnd] at hd; cases hd
  · intro u fid' sz' hu; have := hnoh u; rw [hu] at this; cases this
  · intro u fid' sz' hu; have := hnoh u; rw [hu] at this; cases this

theorem minv_stepBegin {s : State} (h : MInv s) (t sz : Nat) (ht : s.pc t = Pc.idle) : MInv (stepBegin s t sz).1 := by
  have hth : (s.pc t).holder = false := by rw [ht]; rfl
  unfold stepBegin
  by_cases hb : s.busy = true
  · rw [if_pos hb]
    exact minv_pc_nonholder h t _ rfl hth rfl rfl rfl rfl rfl rfl (fun u => rfl)
  · have hb' : s.busy = false := by cases hx : s.busy <;> simp_all
    rw [if_neg hb]
    by_cases hg : sz + 8 > s.cap
    · rw [if_pos hg]
      cases hp : s.ptr with
      | some p =>
        simp only []
        exact minv_win h t _ hb' rfl (fun _ _ _ => ⟨p, hp⟩) (fun _ _ e => by cases e) rfl rfl hp.symm rfl rfl rfl (fun u => rfl)
      | none =>
        simp only []
        exact minv_win h t _ hb' rfl (fun _ _ e => by cases e) (fun _ _ _ => hp) rfl rfl hp.symm rfl rfl rfl (fun u => rfl)
    · rw [if_neg hg]
      exact minv_win_reuse h s.nextFrame sz hb' (by omega) rfl rfl rfl rfl rfl rfl rfl

theorem minv_stepGo {s : State} (h : MInv s) (t : Nat) : MInv (stepGo s t).1 := by
  unfold stepGo
  cases ht : s.pc t with
  | idle => exact h
  | needDel fid sz => exact minv_go_del h t fid sz ht rfl rfl rfl rfl rfl rfl (fun u => rfl)
  | needNew fid sz => exact minv_go_new h t fid sz ht rfl rfl rfl rfl rfl rfl (fun u => rfl)
  | needPriv fid sz => exact minv_go_priv h t fid sz ht rfl rfl rfl rfl rfl rfl (fun u => rfl)
  | needUnbusy fid => exact minv_go_unbusy h t fid ht rfl rfl rfl rfl rfl rfl (fun u => rfl)

theorem minv_stepGoFail {s : State} (h : MInv s) (t : Nat) : MInv (stepGoFail s t).1 := by
  unfold stepGoFail
  cases ht : s.pc t with
  | idle => simp only []; rw [show stepGo s t = (s, Res.skip) by unfold stepGo; rw [ht]]; exact h
  | needDel fid sz => exact minv_stepGo h t
  | needNew fid sz => exact minv_go_fail_new h t fid sz ht rfl rfl rfl rfl rfl rfl (fun u => rfl)
  | needPriv fid sz =>
    exact minv_pc_nonholder h t Pc.idle rfl (by rw [ht]; rfl) rfl rfl rfl rfl rfl rfl (fun u => rfl)
  | needUnbusy fid => exact minv_stepGo h t

theorem minv_stepFree {s : State} (h : MInv s) (id : Nat) : MInv (stepFree s id).1 := by
  unfold stepFree
  cases hfind : s.frames.find? (fun f => f.id == id) with
  | none => exact h
  | some f =>
    have hf : f ∈ s.frames := List.mem_of_find?_eq_some hfind
    cases hp : f.priv with
    | true => simp only [hp, if_true]; exact minv_free_priv h f hf hp rfl rfl rfl rfl rfl rfl rfl
    | false =>
      simp only [hp, Bool.false_eq_true, if_false]
      exact minv_free_shared h f hf hp rfl rfl rfl rfl rfl rfl rfl

theorem minv_step {s : State} (h : MInv s) (t : Nat) (a : Act) : MInv (step s t a).1 := by
  unfold step
  cases ht : s.pc t with
  | idle =>
    cases a with
    | alloc sz => exact minv_stepBegin h t sz ht
    | free id => exact minv_stepFree h id
    | go => exact h
    | fail => exact h
  | needDel fid sz => cases a <;> first | exact minv_stepGo h t | exact minv_stepGoFail h t
  | needNew fid sz => cases a <;> first | exact minv_stepGo h t | exact minv_stepGoFail h t
  | needPriv fid sz => cases a <;> first | exact minv_stepGo h t | exact minv_stepGoFail h t
  | needUnbusy fid => cases a <;> first | exact minv_stepGo h t | exact minv_stepGoFail h t

theorem minv_run {s : State} (h : MInv s) (sched : List (Nat × Act)) : MInv (run s sched) := by
  induction sched generalizing s with
  | nil => exact h
  | cons x xs ih => exact ih (minv_step h x.1 x.2)

/-- every state reachable by any number of threads under any schedule (a schedule step names a thread and what it
does next: begin an `alloc`, continue its operation by one hooked operation, or `dealloc` a live frame) -/
def Reachable (s : State) : Prop := ∃ sched, s = run init sched

theorem reachable_minv {s : State} (h : Reachable s) : MInv s := by
  obtain ⟨sched, rfl⟩ := h
  exact minv_run minv_init sched

end Cocls.Storage.Mt
