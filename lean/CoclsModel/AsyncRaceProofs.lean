import CoclsModel.AsyncRace
/-!
Invariant of the micro-step model of threads racing `start(promise)` / `p(...)` / `~promise` on one promise, preserved by
every step of every agent under every schedule (helper lemmas for the race theorems of `Props/C04.lean`).
-/
namespace Cocls.AsyncRace
open Cocls.Async (Outcome upd)

theorem upd_apply {α} (m : Nat → α) (i j : Nat) (v : α) : upd m i v j = if j = i then v else m j := rfl

def Pc.isWon : Pc → Bool
  | Pc.won | Pc.gate1 | Pc.gate2 | Pc.tail true => true
  | _ => false

structure Inv (c : Cfg) (s : State) : Prop where
  owner_free : s.owner = true → (∀ a, s.claimed a ≠ some true) ∧ s.fut = none
  unique : ∀ a b, s.claimed a = some true → s.claimed b = some true → a = b
  won_claimed : ∀ a, (s.pc a).isWon = true → s.claimed a = some true
  won_pending : ∀ a, s.pc a = Pc.won → s.fut = none
  loser_idle : ∀ a, s.claimed a ≠ some true → s.bodyStarts a = 0 ∧ s.argDtors a = 0 ∧ s.suspended a = false
  body_le : ∀ a, s.bodyStarts a ≤ 1 ∧ s.argDtors a ≤ 1
  body_zero : ∀ a, s.pc a = Pc.init ∨ s.pc a = Pc.won → s.bodyStarts a = 0
  argd_zero : ∀ a, s.pc a ≠ Pc.fin → s.argDtors a = 0
  resolves_eq : s.resolves = if s.fut = none then 0 else 1
  fut_winner : ∀ x, s.fut = some x → ∀ a, s.claimed a = some true → x = (c.kind a).payload
  init_unclaimed : ∀ a, s.pc a = Pc.init → s.claimed a = none
  dtor_kind : ∀ a b, s.pc a = Pc.dloaded b ∨ s.pc a = Pc.blocked → c.kind a = Kind.dtor
  dtor_loaded : ∀ d, s.pc d = Pc.dloaded true →
      s.owner = true ∧ ∀ i, i < c.n → c.kind i ≠ Kind.dtor → s.pc i = Pc.fin

theorem inv_init (c : Cfg) : Inv c {} := by
  constructor <;> simp [Pc.isWon]

theorem othersDone_spec (c : Cfg) (s : State) (h : othersDone c s = true) :
    ∀ i, i < c.n → c.kind i ≠ Kind.dtor → s.pc i = Pc.fin := by
  intro i hi hk
  simp only [othersDone, List.all_eq_true, List.mem_range] at h
  have := h i hi
  simp at this
  rcases this with h' | h'
  · exact absurd h' hk
  · exact h'


theorem inv_claim (c : Cfg) (s : State) (a : Nat) (h : Inv c s) (hp : s.pc a = Pc.init) (hk : c.kind a ≠ Kind.dtor)
    (hen : enabled c s a = true) : Inv c (claim s a).1 := by
  obtain ⟨h1,h2,h3,h4,h5,h6,h7,h8,h9,h10,h11,h12,h13⟩ := h
  have hlt : a < c.n := by simp [enabled] at hen; exact hen.1.1
  have hnd : ∀ d, s.pc d ≠ Pc.dloaded true := by
    intro d hdl; have := (h13 d hdl).2 a hlt hk; rw [hp] at this; cases this
  have hca : s.claimed a = none := h11 a hp
  cases ho : s.owner
  · refine ⟨?_,?_,?_,?_,?_,?_,?_,?_,?_,?_,?_,?_,?_⟩ <;> simp only [claim, ho, upd_apply] <;> grind [Pc.isWon]
  · have hno := (h1 ho).1
    have hfn := (h1 ho).2
    refine ⟨?_,?_,?_,?_,?_,?_,?_,?_,?_,?_,?_,?_,?_⟩ <;> simp only [claim, ho, upd_apply] <;> grind [Pc.isWon]


macro "race_tac" : tactic =>
  `(tactic| (refine ⟨?_,?_,?_,?_,?_,?_,?_,?_,?_,?_,?_,?_,?_⟩ <;> simp only [upd_apply] <;> grind [Pc.isWon]))

theorem inv_fin (c : Cfg) (s : State) (a : Nat) (h : Inv c s) : Inv c (setPc s a Pc.fin) := by
  obtain ⟨h1,h2,h3,h4,h5,h6,h7,h8,h9,h10,h11,h12,h13⟩ := h
  simp only [setPc]
  race_tac

theorem inv_block (c : Cfg) (s : State) (a : Nat) (h : Inv c s) (hp : s.pc a = Pc.init) (hk : c.kind a = Kind.dtor) :
    Inv c (setPc s a Pc.blocked) := by
  obtain ⟨h1,h2,h3,h4,h5,h6,h7,h8,h9,h10,h11,h12,h13⟩ := h
  simp only [setPc]
  race_tac

theorem inv_dtorLoad (c : Cfg) (s : State) (a : Nat) (h : Inv c s) (hp : s.pc a = Pc.init ∨ s.pc a = Pc.blocked)
    (hk : c.kind a = Kind.dtor) (ho : othersDone c s = true) : Inv c (dtorLoad s a).1 := by
  have hod := othersDone_spec c s ho
  obtain ⟨h1,h2,h3,h4,h5,h6,h7,h8,h9,h10,h11,h12,h13⟩ := h
  simp only [dtorLoad, setPc]
  race_tac

theorem inv_dtorResolve (c : Cfg) (s : State) (a : Nat) (h : Inv c s) (hp : s.pc a = Pc.dloaded true)
    (hd : ∀ x y, c.kind x = Kind.dtor → c.kind y = Kind.dtor → x = y) :
    Inv c { s with fut := some none, resolves := s.resolves + 1, owner := false, pc := upd s.pc a (Pc.dloaded false) } := by
  obtain ⟨h1,h2,h3,h4,h5,h6,h7,h8,h9,h10,h11,h12,h13⟩ := h
  have hka : c.kind a = Kind.dtor := h12 a true (Or.inl hp)
  have how := (h13 a hp).1
  have hno := (h1 how).1
  have hfn := (h1 how).2
  have huniq : ∀ d, s.pc d = Pc.dloaded true → d = a := by
    intro d hdl; exact hd d a (h12 d true (Or.inl hdl)) hka
  race_tac


theorem inv_gate1 (c : Cfg) (s : State) (a : Nat) (h : Inv c s) (hp : s.pc a = Pc.won) :
    Inv c { s with bodyStarts := upd s.bodyStarts a (s.bodyStarts a + 1), pc := upd s.pc a Pc.gate1 } := by
  obtain ⟨h1,h2,h3,h4,h5,h6,h7,h8,h9,h10,h11,h12,h13⟩ := h
  have hc := h3 a (by simp [hp, Pc.isWon])
  have hb := h7 a (Or.inr hp)
  race_tac

theorem inv_gate2 (c : Cfg) (s : State) (a : Nat) (h : Inv c s) (hp : s.pc a = Pc.gate1) :
    Inv c (setPc s a Pc.gate2) := by
  obtain ⟨h1,h2,h3,h4,h5,h6,h7,h8,h9,h10,h11,h12,h13⟩ := h
  have hc := h3 a (by simp [hp, Pc.isWon])
  simp only [setPc]
  race_tac

theorem inv_park (c : Cfg) (s : State) (a : Nat) (h : Inv c s) (hp : s.pc a = Pc.gate2) :
    Inv c { s with suspended := upd s.suspended a true, pc := upd s.pc a Pc.fin } := by
  obtain ⟨h1,h2,h3,h4,h5,h6,h7,h8,h9,h10,h11,h12,h13⟩ := h
  have hc := h3 a (by simp [hp, Pc.isWon])
  race_tac

theorem inv_resolveWith (c : Cfg) (s : State) (a : Nat) (h : Inv c s) (hp : s.pc a = Pc.won) :
    Inv c (resolveWith s a (c.kind a).payload) := by
  obtain ⟨h1,h2,h3,h4,h5,h6,h7,h8,h9,h10,h11,h12,h13⟩ := h
  have hc := h3 a (by simp [hp, Pc.isWon])
  have hf := h4 a hp
  simp only [resolveWith]
  race_tac

theorem inv_resolveBody (c : Cfg) (s : State) (a : Nat) (h : Inv c s) (hp : s.pc a = Pc.won) :
    Inv c { resolveWith s a (c.kind a).payload with bodyStarts := upd s.bodyStarts a (s.bodyStarts a + 1) } := by
  obtain ⟨h1,h2,h3,h4,h5,h6,h7,h8,h9,h10,h11,h12,h13⟩ := h
  have hc := h3 a (by simp [hp, Pc.isWon])
  have hf := h4 a hp
  have hb := h7 a (Or.inr hp)
  simp only [resolveWith]
  race_tac

theorem inv_tailArgd (c : Cfg) (s : State) (a : Nat) (h : Inv c s) (hp : s.pc a = Pc.tail true) :
    Inv c { s with argDtors := upd s.argDtors a (s.argDtors a + 1), pc := upd s.pc a Pc.fin } := by
  obtain ⟨h1,h2,h3,h4,h5,h6,h7,h8,h9,h10,h11,h12,h13⟩ := h
  have hc := h3 a (by simp [hp, Pc.isWon])
  have hz := h8 a (by simp [hp])
  race_tac


theorem inv_step (c : Cfg) (s : State) (a : Nat) (hd : ∀ x y, c.kind x = Kind.dtor → c.kind y = Kind.dtor → x = y)
    (h : Inv c s) : Inv c (step c s a).1 := by
  unfold step
  split
  · exact h
  · rename_i hen
    have hen' : enabled c s a = true := by simpa using hen
    split
    · have hk : c.kind a = Kind.dtor := by assumption
      have hp : s.pc a = Pc.init := by assumption
      split
      · rename_i ho; exact inv_dtorLoad c s a h (Or.inl hp) hk ho
      · exact inv_block c s a h hp hk
    · have hk : c.kind a = Kind.dtor := by assumption
      have hp : s.pc a = Pc.blocked := by assumption
      have ho : othersDone c s = true := by
        simp only [enabled, hp] at hen'; simp at hen'; exact hen'.2
      exact inv_dtorLoad c s a h (Or.inr hp) hk ho
    · have hp : s.pc a = Pc.dloaded true := by assumption
      exact inv_dtorResolve c s a h hp hd
    · exact inv_fin c s a h
    · have hp : s.pc a = Pc.init := by assumption
      have hk : c.kind a = Kind.dtor → False := by assumption
      exact inv_claim c s a h hp hk hen'
    · have hp : s.pc a = Pc.won := by assumption
      exact inv_gate1 c s a h hp
    · have hp : s.pc a = Pc.gate1 := by assumption
      exact inv_gate2 c s a h hp
    · have hp : s.pc a = Pc.gate2 := by assumption
      exact inv_park c s a h hp
    · have hp : s.pc a = Pc.won := by assumption
      split
      · exact inv_resolveBody c s a h hp
      · exact inv_resolveWith c s a h hp
    · rename_i k pcv r hp hnk
      split
      · rename_i hr
        have hr' : r = true := by simp at hr; exact hr.2
        subst hr'
        exact inv_tailArgd c s a h hp
      · exact inv_fin c s a h
    · exact inv_fin c s a h

theorem inv_run (c : Cfg) (s : State) (sched : List Nat)
    (hd : ∀ x y, c.kind x = Kind.dtor → c.kind y = Kind.dtor → x = y) (h : Inv c s) : Inv c (run c s sched) := by
  induction sched generalizing s with
  | nil => exact h
  | cons a rest ih => exact ih _ (inv_step c s a hd h)

end Cocls.AsyncRace
