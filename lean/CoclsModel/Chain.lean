/-
Micro-step model of the promise / future / awaiter-chain core (future.h, awaiter.h), list level.

One agent step = the plain code up to and including the agent's next synchronising operation (exactly the
step of the baton harness `harness/h_chain.cpp`, which yields after every interposed atomic operation of the
unmodified headers).  Agents:

* resolvers: `promise::operator()(value | exception | drop)` — `claim` (xchg on `_owner`), `future::set`,
  `resolve` (xchg on `_awaiter` := ready), walk over the detached chain; the returned suspend point is either dropped
  (ordinary code: the collected coroutines are resumed in order) or — `Cfg.aw t`, the resolver is itself a coroutine —
  awaited in the same expression, `co_await promise(...)`: `suspend_point::await_suspend` transfers to the *last*
  collected handle, queues the others in order and the awaiting coroutine behind them (`awaitOrder`);
* the destructor agent: `~promise` (load `_owner`; resolve without payload), enabled once every resolver call
  returned (a destructor racing a member call is outside C++ object lifetime);
* the destructor agent of a `promise_with_default` / `_v` / `_vp` (`Kind.ddef v`): `this->set_value(def)` — `claim`
  (xchg on `_owner`), `future::set(def)`, `resolve`, walk, the suspend point is flushed — followed by the base `~promise`
  (load `_owner`), same lifetime rule;
* waiters: coroutine `co_await`, blocking `wait()`, callback awaiter, `has_value()` awaiter:
  `ready()` load, `subscribe_check_ready` CAS loop, (blocking) `flag.wait`.

The awaiter chain is a `List Nat` of waiter ids, newest first (the intrusive `_next` links; a waiter's `_next`
is the head it observed).  Ghost fields: `wins`, `winner`, `woken`, `observed`, `subscribed`.
-/
namespace Cocls.Chain

inductive Outcome where
  | none                 -- no value (drop / destruction)
  | val (v : Nat)
  | exc (c : Nat)
  deriving DecidableEq, Repr, Inhabited

inductive RK where
  | value (v : Nat) | exc (c : Nat) | drop
  deriving DecidableEq, Repr, Inhabited

inductive WK where
  | coro | sync | cb | hasv
  deriving DecidableEq, Repr, Inhabited

inductive Kind where
  | res (k : RK) | dtor | wait (k : WK)
  | ddef (v : Nat)     -- destruction of a `promise_with_default` whose default value is `v`
  deriving DecidableEq, Repr, Inhabited

def RK.payload : RK → Outcome
  | RK.value v => Outcome.val v
  | RK.exc c => Outcome.exc c
  | RK.drop => Outcome.none

inductive Slot where
  | chain (l : List Nat)
  | ready
  deriving DecidableEq, Repr, Inhabited

/-- what an atomic operation on the slot observed -/
inductive Seen where
  | null | node (w : Nat) | ready
  deriving DecidableEq, Repr, Inhabited

def Slot.seen : Slot → Seen
  | Slot.chain [] => Seen.null
  | Slot.chain (x :: _) => Seen.node x
  | Slot.ready => Seen.ready

/-- what the walker still has to do -/
inductive Act where
  | store (x : Nat)                 -- blocking waiter: `flag.store(true)`
  | wake (x : Nat)                  -- callback invoked / coroutine resumed: it reads the result inline
  | obsAfter (x : Nat) (seen : Seen) -- `value()` of `x` found no value, its `pending()` load returned `seen`
  deriving DecidableEq, Repr, Inhabited

inductive Pc where
  | rClaim                                   -- resolver: about to `claim()`
  | rFinLost                                 -- lost the claim: returns false
  | rResolve (dt : Bool)                     -- winner (or destructor): set payload, `resolve()` exchange
  | rRun (dt : Bool) (acts : List Act)       -- walking the detached chain / resuming collected coroutines
  | dArrive | dBlocked | dFin                -- destructor agent
  | dLoad                                    -- `~promise_with_default` lost its claim: base `~promise` loads `_owner`
  | wLoad                                    -- waiter: `ready()` load
  | wCas (exp : Seen)                        -- `subscribe_check_ready` CAS with expected value `_next`
  | wFinParked                               -- subscribed (non-blocking kinds): thread returns
  | wWait | wBlocked                         -- blocking waiter: `flag.wait(false)`
  | wRead                                    -- read the result, then finish
  | wRead2 (seen : Seen)                     -- `value()` found no value and loaded the slot (`pending()`)
  | done
  deriving DecidableEq, Repr, Inhabited

/-- what a waiter sees when it reads the result (`future::value()` / `awaitable_bool::await_resume`) -/
inductive Obs where
  | val (v : Nat) | exc (c : Nat) | canceled | notready | hv (b : Bool)
  deriving DecidableEq, Repr, Inhabited

inductive Ev where
  | opLoadSlot (t : Nat) (s : Seen)
  | opCas (t : Nat) (ok : Bool) (s : Seen)
  | opXchgOwner (t : Nat) (had : Bool)
  | opLoadOwner (t : Nat) (had : Bool)
  | opXchgSlot (t : Nat) (s : Seen)
  | opStoreFlag (t : Nat) (w : Nat)
  | waitBlock (t : Nat)
  | waitPass (t : Nat)
  | dBlock (t : Nat)
  | fin (t : Nat)
  | obs (w : Nat) (o : Obs)
  | ret (t : Nat) (b : Bool)
  deriving DecidableEq, Repr, Inhabited

structure State where
  owner : Bool := true
  slot : Slot := Slot.chain []
  payload : Outcome := Outcome.none
  flag : Nat → Bool := fun _ => false
  pc : Nat → Pc
  -- ghost
  wins : Nat := 0
  winner : Option Nat := none
  subscribed : Nat → Bool := fun _ => false
  woken : Nat → Nat := fun _ => 0
  observed : Nat → Nat := fun _ => 0

structure Cfg where
  n : Nat
  kind : Nat → Kind
  /-- agent `t` (a resolver call) is made from inside a coroutine that awaits the returned suspend point in the same
  expression: `bool won = co_await promise(args...)` -/
  aw : Nat → Bool := fun _ => false

def upd {α} (f : Nat → α) (i : Nat) (v : α) : Nat → α := fun j => if j = i then v else f j

@[simp] theorem upd_same {α} (f : Nat → α) (i : Nat) (v : α) : upd f i v i = v := by simp [upd]
@[simp] theorem upd_other {α} (f : Nat → α) (i j : Nat) (v : α) (h : j ≠ i) : upd f i v j = f j := by
  simp [upd, h]

def initPc : Kind → Pc
  | Kind.res _ => Pc.rClaim
  | Kind.dtor => Pc.dArrive
  | Kind.wait _ => Pc.wLoad
  | Kind.ddef _ => Pc.dArrive

def init (c : Cfg) : State := { pc := fun i => if i < c.n then initPc (c.kind i) else Pc.done }

def wkOf (c : Cfg) (w : Nat) : WK :=
  match c.kind w with
  | Kind.wait k => k
  | _ => WK.coro

/-- all resolver calls have returned -/
def resolversDone (c : Cfg) (s : State) : Bool :=
  (List.range c.n).all fun i =>
    match c.kind i with
    | Kind.res _ => s.pc i == Pc.done
    | _ => true

def enabled (c : Cfg) (s : State) (t : Nat) : Bool :=
  match s.pc t with
  | Pc.done => false
  | Pc.wBlocked => s.flag t
  | Pc.dBlocked => resolversDone c s
  | _ => true

def setPc (s : State) (t : Nat) (p : Pc) : State := { s with pc := upd s.pc t p }

/-- `suspend_point::await_suspend` in coroutine mode (`co_await promise(...)`): of the collected handles `h1 … hk` the last
one is resumed by symmetric transfer, `h1 … h(k-1)` are queued in order and the awaiting coroutine behind them: the
coroutines run in the order `hk, h1, …, h(k-1)`, and the awaiting resolver continues after all of them -/
def awaitOrder (l : List Nat) : List Nat :=
  match l.getLast? with
  | none => []
  | some x => x :: l.dropLast

/-- the order in which the handles collected by the walk of agent `t` are resumed -/
def resumeOrder (c : Cfg) (t : Nat) (l : List Nat) : List Nat := if c.aw t then awaitOrder l else l

/-- `resume_chain_lk`: blocking waiters and callbacks are handled while walking (chain order), coroutine handles
are collected into the returned suspend point and resumed afterwards (same order when the suspend point is dropped,
`awaitOrder` when agent `t` awaits it) -/
def buildActs (c : Cfg) (t : Nat) (l : List Nat) : List Act :=
  (l.filter (fun x => wkOf c x = WK.sync ∨ wkOf c x = WK.cb)).map
      (fun x => if wkOf c x = WK.sync then Act.store x else Act.wake x)
  ++ (resumeOrder c t (l.filter (fun x => ¬ (wkOf c x = WK.sync ∨ wkOf c x = WK.cb)))).map Act.wake

/-- a reader of kind `k` needs the extra `pending()` load: `value()` with no value stored -/
def needsLoad (s : State) (k : WK) : Bool := k != WK.hasv && s.payload == Outcome.none

def obsOf (s : State) (k : WK) (seen : Seen) : Obs :=
  match k with
  | WK.hasv => Obs.hv (s.payload != Outcome.none)
  | _ =>
    match s.payload with
    | Outcome.val v => Obs.val v
    | Outcome.exc c => Obs.exc c
    | Outcome.none => if seen = Seen.ready then Obs.canceled else Obs.notready

/-- run the walker's actions up to and including its next synchronising operation;
returns (state, events, remaining actions, whether it stopped at an operation) -/
def runActs (c : Cfg) (t : Nat) : State → List Act → State × List Ev × List Act × Bool
  | s, [] => (s, [], [], false)
  | s, Act.store x :: rest =>
      ({ s with flag := upd s.flag x true, woken := upd s.woken x (s.woken x + 1) }, [Ev.opStoreFlag t x], rest, true)
  | s, Act.wake x :: rest =>
      let s1 := { s with woken := upd s.woken x (s.woken x + 1) }
      if needsLoad s (wkOf c x) then
        (s1, [Ev.opLoadSlot t s.slot.seen], Act.obsAfter x s.slot.seen :: rest, true)
      else
        let s2 := { s1 with observed := upd s1.observed x (s1.observed x + 1) }
        let r := runActs c t s2 rest
        (r.1, Ev.obs x (obsOf s (wkOf c x) Seen.ready) :: r.2.1, r.2.2.1, r.2.2.2)
  | s, Act.obsAfter x seen :: rest =>
      let s2 := { s with observed := upd s.observed x (s.observed x + 1) }
      let r := runActs c t s2 rest
      (r.1, Ev.obs x (obsOf s (wkOf c x) seen) :: r.2.1, r.2.2.1, r.2.2.2)

/-- `~promise`: load `_owner`; if it is still set, resolve the future without a payload -/
def dtorLoad (s : State) (t : Nat) : State × List Ev :=
  if s.owner then
    ({ setPc s t (Pc.rResolve true) with owner := false, wins := s.wins + 1, winner := some t },
     [Ev.opLoadOwner t true])
  else (setPc s t Pc.dFin, [Ev.opLoadOwner t false])

/-- `~promise_with_default`: `set_value(def)` starts with `claim()`; a lost claim leaves only the base destructor -/
def ddefClaim (s : State) (t : Nat) : State × List Ev :=
  if s.owner then
    ({ setPc s t (Pc.rResolve false) with owner := false, wins := s.wins + 1, winner := some t },
     [Ev.opXchgOwner t true])
  else (setPc s t Pc.dLoad, [Ev.opXchgOwner t false])

/-- first operation of a destructor agent once the resolver calls have returned -/
def dtorEnter (c : Cfg) (s : State) (t : Nat) : State × List Ev :=
  match c.kind t with
  | Kind.ddef _ => ddefClaim s t
  | _ => dtorLoad s t

/-- the walker has nothing left to do: a resolver call returns `true`, the destructor returns, and
`~promise_with_default` goes on with the base `~promise` (its `_owner` load is the step's operation) -/
def finishRun (c : Cfg) (s : State) (t : Nat) (dt : Bool) (evs : List Ev) : State × List Ev :=
  if dt then (setPc s t Pc.done, evs ++ [Ev.fin t])
  else
    match c.kind t with
    | Kind.ddef _ => ((dtorLoad s t).1, evs ++ (dtorLoad s t).2)
    | _ => (setPc s t Pc.done, evs ++ [Ev.ret t true, Ev.fin t])

def stepRun (c : Cfg) (s : State) (t : Nat) (dt : Bool) (acts : List Act) : State × List Ev :=
  let r := runActs c t s acts
  if r.2.2.2 then (setPc r.1 t (Pc.rRun dt r.2.2.1), r.2.1)
  else finishRun c r.1 t dt r.2.1

def chainOf : Slot → List Nat
  | Slot.chain l => l
  | Slot.ready => []

def readStep (c : Cfg) (s : State) (t : Nat) : State × List Ev :=
  if needsLoad s (wkOf c t) then (setPc s t (Pc.wRead2 s.slot.seen), [Ev.opLoadSlot t s.slot.seen])
  else ({ setPc s t Pc.done with observed := upd s.observed t (s.observed t + 1) },
        [Ev.obs t (obsOf s (wkOf c t) Seen.ready), Ev.fin t])

def readStep2 (c : Cfg) (s : State) (t : Nat) (seen : Seen) : State × List Ev :=
  ({ setPc s t Pc.done with observed := upd s.observed t (s.observed t + 1) },
   [Ev.obs t (obsOf s (wkOf c t) seen), Ev.fin t])

/-- one micro-step of agent `t` -/
def astep (c : Cfg) (s : State) (t : Nat) : State × List Ev :=
  match s.pc t with
  | Pc.done => (s, [])
  | Pc.rClaim =>
      if s.owner then
        ({ setPc s t (Pc.rResolve false) with owner := false, wins := s.wins + 1, winner := some t },
         [Ev.opXchgOwner t true])
      else (setPc s t Pc.rFinLost, [Ev.opXchgOwner t false])
  | Pc.rFinLost => (setPc s t Pc.done, [Ev.ret t false, Ev.fin t])
  | Pc.rResolve dt =>
      let pay := if dt then s.payload else
        match c.kind t with
        | Kind.res k => k.payload
        | Kind.ddef v => Outcome.val v
        | _ => s.payload
      ({ setPc s t (Pc.rRun dt (buildActs c t (chainOf s.slot))) with payload := pay, slot := Slot.ready },
       [Ev.opXchgSlot t s.slot.seen])
  | Pc.rRun dt acts => stepRun c s t dt acts
  | Pc.dArrive =>
      if resolversDone c s then dtorEnter c s t
      else (setPc s t Pc.dBlocked, [Ev.dBlock t])
  | Pc.dBlocked => dtorEnter c s t
  | Pc.dLoad => dtorLoad s t
  | Pc.dFin => (setPc s t Pc.done, [Ev.fin t])
  | Pc.wLoad =>
      if s.slot = Slot.ready then (setPc s t Pc.wRead, [Ev.opLoadSlot t Seen.ready])
      else (setPc s t (Pc.wCas Seen.null), [Ev.opLoadSlot t s.slot.seen])
  | Pc.wCas exp =>
      match s.slot with
      | Slot.ready => (setPc s t Pc.wRead, [Ev.opCas t false Seen.ready])
      | Slot.chain l =>
          if (Slot.chain l).seen = exp then
            ({ setPc s t (if wkOf c t = WK.sync then Pc.wWait else Pc.wFinParked) with
                slot := Slot.chain (t :: l), subscribed := upd s.subscribed t true },
             [Ev.opCas t true (Slot.chain l).seen])
          else (setPc s t (Pc.wCas (Slot.chain l).seen), [Ev.opCas t false (Slot.chain l).seen])
  | Pc.wFinParked => (setPc s t Pc.done, [Ev.fin t])
  | Pc.wWait =>
      if s.flag t then (setPc s t Pc.wRead, [Ev.waitPass t])
      else (setPc s t Pc.wBlocked, [Ev.waitBlock t])
  | Pc.wBlocked => (setPc s t Pc.wRead, [Ev.waitPass t])
  | Pc.wRead => readStep c s t
  | Pc.wRead2 seen => readStep2 c s t seen

/-- run a schedule of agent ids (an entry naming a disabled agent is a stutter here; the driver implements the
harness's fall-through rule on top) -/
def run (c : Cfg) (s : State) (sched : List Nat) : State :=
  sched.foldl (fun s t => if enabled c s t then (astep c s t).1 else s) s

/-! ## move-assignment of `promise_with_default` objects (configuration level)

`a = std::move(b)` takes over the future `b` owns (one `claim` on `b`, a plain store into `a`); what matters for the
model is which default value the object that finally owns the future — and whose destruction is the `Kind.ddef`
agent — carries. -/

/-- default value of `a` after `a = std::move(b)`: `b`'s default travels with the ownership
(`def = std::move(other.def)`) -/
def assignedDefault (_aDef bDef : Nat) : Nat := bDef

/-- as the pinned code had it: `def = std::move(def)` (a self-move) — `a` keeps its own, old default for the
future it took over from `b` -/
def assignedDefaultAsIs (aDef _bDef : Nat) : Nat := aDef

/-- the agent that ends the promise's life when another (empty) promise of the same class is move-assigned *over* it while
it still owns the future: the replaced promise ends as if it was destroyed — `~promise` semantics (no-value) for a plain
promise, the default value for a `promise_with_default` / `_v` / `_vp` (`pwd = some v`) -/
def assignOverKind (pwd : Option Nat) : Kind :=
  match pwd with
  | some v => Kind.ddef v
  | none => Kind.dtor

/-- as the pinned code had it (before `/repo` commit e4e0094): all three `promise_with_default*` assignment operators went
straight to `promise<T>::operator=`, which does `set_value(drop)` — the future of the replaced promise lost its default -/
def assignOverKindAsIs (_pwd : Option Nat) : Kind := Kind.dtor

end Cocls.Chain
