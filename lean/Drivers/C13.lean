import CoclsModel.Proto
import CoclsModel.Generator
/-! Driver for C13: runs the generator model on the harness input (same grammar as harness/h_generator.cpp).

The harness operations that block the consumer thread (`next`, the iterator operations, range-for, `fwait`) are expanded into
the model's primitive operations: `syncBegin`, then — as long as `syncEnd` reports `blocked` — `complete k` for the operation the
body awaits (that is what the helper thread of the harness does, printed as `helped=k`), then `syncEnd`. -/
open Cocls Cocls.Proto Cocls.Gen

def itemStr : Item → String
  | .val v => s!"v:{v}"
  | .exc => "exc"
  | .fin => "novalue"
  | .nomore => "nomore"
  | .notready => "notready"

def tf (b : Bool) : String := if b then "true" else "false"

def evStr : Ev → String
  | .got a => s!"got={a}"
  | .anext .fin => "anext=false"
  | .anext .nomore => "anext=nomore"
  | .anext _ => "anext=true"
  | .kawait .fin => "kawait=false"
  | .kawait .nomore => "kawait=nomore"
  | .kawait _ => "kawait=true"
  | .sub .fin => "sub=false"
  | .sub i => s!"sub={itemStr i}"
  | .fawait i => s!"fawait={itemStr i}"
  | .fhas b => s!"fhas={tf b}"
  | .dtor g => s!"~g{g}"
  | .acc v => s!"acc={v}"

def parseAct (w : String) : Option Act :=
  let rest := (w.drop 1).toString
  let num := rest.toNat?.getD 0
  match w.front with
  | 'y' => some (.yield num)
  | 'a' => some (.yieldAcc (if 1 ≤ num && num ≤ 9 then num else 1))   -- acc.append(digit); co_yield acc
  | 'n' => some .yieldNull
  | 'r' => some .awaitReady
  | 'q' => some .pause
  | 'p' => some (.await (if num < 8 then num else 0))
  | 'f' => some (.await (if num < 8 then num else 0))
  | 'g' => some .guard
  | 't' => some .throw
  | 'x' => some .ret
  | _ => none

/-- driver state: the model state, the events printed so far on the current line, and the state of the consumer's callback
awaiter (`subr n a`: how many more times it re-arms itself from inside the notification, and with which argument) -/
structure D where
  s : State
  out : Array String := #[]
  chainLeft : Nat := 0
  chainArg : Nat := 0
  kValid : Bool := false     -- no other access has started since `keep a` stored its argument reference (harness bookkeeping)
  refMode : Bool := false    -- generator<T&>: the future of a call refers into the frame
  futFresh : Bool := false   -- no access has resumed the body since the call that produced the current future

def isSubVal : Ev → Bool
  | .sub (.val _) => true
  | _ => false

/-- one primitive model step; new model events are appended to the line. If the step called the consumer's callback with a value
and the callback still has re-arms left, its re-entrant `next(a+1).subscribe(this)` is the next step (see `subGo`). -/
def primF : Nat → D → Op → D × Res
  | 0, d, _ => (d, .bad)
  | fuel + 1, d, op =>
      let n := d.s.evs.length
      let (s', r) := step d.s op
      let newEvs := s'.evs.drop n
      let d1 : D := { d with s := s', out := d.out ++ (newEvs.map evStr).toArray }
      if newEvs.any isSubVal && d1.chainLeft > 0 then
        let d2 : D := { d1 with chainLeft := d1.chainLeft - 1, chainArg := d1.chainArg + 1 }
        ((primF fuel d2 (.sub d2.chainArg)).1, r)
      else (d1, r)

def prim (d : D) (op : Op) : D × Res := primF (d.s.script.length + 4) d op

/-- the helper thread completes the operation the body awaits -/
def help (d : D) : Option D :=
  match d.s.bst with
  | .await k =>
      let d1 : D := { d with out := d.out.push s!"helped={k}" }
      some (prim d1 (.complete k)).1
  | _ => none

/-- finish a started synchronous access -/
def finishSync (d : D) : Nat → D × Res
  | 0 => (d, .bad)
  | fuel + 1 =>
      let (d1, r) := prim d .syncEnd
      match r with
      | .blocked => match help d1 with
          | some d2 => finishSync d2 fuel
          | none => (d1, .bad)
      | _ => (d1, r)

def fuelOf (d : D) : Nat := d.s.script.length + 3

/-- a whole blocking access -/
def syncOp (d : D) (op : Op) : D × Res :=
  let (d1, r) := prim d op
  match r with
  | .started => finishSync d1 (fuelOf d1)
  | _ => (d1, r)

def resStr : Res → String
  | .unit => ""
  | .gone => " gone"
  | .blocked => " blocked"
  | .busy => " busy"
  | .bad => " bad"
  | .na => " n/a"
  | .noit => " noit"
  | .nofut => " nofut"
  | .nokept => " nokept"
  | .stale => " stale"
  | .started => " started"
  | .next b => " " ++ tf b
  | .nomore => " nomore"
  | .item i => " " ++ itemStr i
  | .pending => " pending"
  | .ready => " ready"
  | .pinc st b => " " ++ itemStr st ++ " " ++ tf b
  | .isEnd b => " " ++ (if b then "1" else "0")
  | .active b => " " ++ (if b then "1" else "0")
  | .destroyed => ""

/-- what `future::operator bool` makes of the future's content: a value or an exception is "has a value" -/
def hasStr : Res → String
  | .item .fin => " false"
  | .item _ => " true"
  | other => resStr other

/-- `for (int &v : gen)`: `it = begin(); while (it != end()) { *it; ++it; }` -/
def forLoop (d : D) (acc : String) (b : Bool) : Nat → D × String
  | 0 => (d, acc ++ " bad")
  | fuel + 1 =>
      if !b then (d, acc ++ " end")
      else
        let (d1, r) := prim d .itDeref
        match r with
        | .item (.val v) =>
            let (d2, r2) := syncOp d1 .itInc
            match r2 with
            | .next b2 => forLoop d2 (acc ++ s!" v:{v}") b2 fuel
            | other => (d2, acc ++ s!" v:{v}" ++ resStr other)
        | other => (d1, acc ++ resStr other)

/-- `while (gen) { if (!gen.next(a)) break; use(gen.value()); }` (operator bool of the generator, operator! of next_awt); with an
argument type the calls pass a, a+1, … (printed as `arg=` markers) -/
def whileLoop (d : D) (acc : String) (a : Nat) : Nat → D × String
  | 0 => (d, acc ++ " bad")
  | fuel + 1 =>
      let (d1, r) := prim d .active
      match r with
      | .active false => (d1, acc ++ " end")
      | .active true =>
          let d1m : D := if d1.s.mode then { d1 with out := d1.out.push s!"arg={a}" } else d1
          let (d2, r2) := syncOp d1m (.syncBegin a)
          match r2 with
          | .next true =>
              let (d3, r3) := prim d2 .value
              match r3 with
              | .item (.val v) => whileLoop d3 (acc ++ s!" v:{v}") (a + 1) fuel
              | other => (d3, acc ++ resStr other)
          | .next false => (d2, acc ++ " end")
          | other => (d2, acc ++ resStr other)
      | other => (d1, acc ++ resStr other)

def forOp (d : D) : D × String :=
  let d0 := (prim d .itDrop).1
  let (d1, r) := syncOp d0 .itBegin
  let (d2, str) := match r with
    | .next b => forLoop d1 "" b (fuelOf d1 + 2)
    | other => (d1, resStr other)
  -- the loop's iterator is a temporary
  ((prim d2 .itDrop).1, str)

/-- `f.wait()` with the helper thread serving the body -/
def fwaitOp (d : D) : Nat → D × Res
  | 0 => (d, .bad)
  | fuel + 1 =>
      let (d1, r) := prim d .futWait
      match r with
      | .blocked => match help d1 with
          | some d2 => fwaitOp d2 fuel
          | none => (d1, .bad)
      | _ => (d1, r)

/-- `end`: the consumer thread completes whatever the outstanding access still waits for -/
def drain (d : D) : Nat → D
  | 0 => d
  | fuel + 1 =>
      if inflight d.s then
        match d.s.bst with
        | .await k => drain (prim d (.complete k)).1 fuel
        | _ => d
      else d

def countGuards (s : State) : Nat × Nat :=
  (List.range s.made).foldl (fun (acc : Nat × Nat) g =>
    let c := s.dtors.count g
    (acc.1 + (if c == 1 then 1 else 0), acc.2 + (if c > 1 then 1 else 0))) (0, 0)

def argOf (ws : List String) : Nat := (natArg ws 1).getD 0

def doLine (d : D) (ws : List String) : D × String :=
  match ws with
  | "next" :: _ => let (d', r) := syncOp d (.syncBegin (argOf ws)); (d', "next" ++ resStr r)
  | "nnext" :: _ => let (d', r) := syncOp d (.syncBegin (argOf ws)); (d', "nnext" ++ resStr r)   -- `!gen.next(a)`: same access
  | ["active"] => let (d', r) := prim d .active; (d', "active" ++ resStr r)
  | ["getid"] => (d, if d.s.alive then "getid ok" else "getid gone")
  | ["beginc"] => let (d', r) := syncOp d .itBegin; (d', "beginc" ++ resStr r)     -- generator_iterator(gen): same as begin()
  | ["arrow"] => let (d', r) := prim d .itDeref; (d', "arrow" ++ resStr r)         -- *it.operator->(): same as *it
  | "while" :: _ =>
      if !d.s.alive then (d, "while gone")
      else if d.s.caller != .none then (d, "while busy")
      else let (d', str) := whileLoop d "" (argOf ws) (fuelOf d + 2); (d', "while" ++ str)
  | ["value"] => let (d', r) := prim d .value; (d', "value" ++ resStr r)
  | "anext" :: _ => let (d', r) := prim d (.anext (argOf ws)); (d', "anext" ++ resStr r)
  | "sub" :: _ =>
      if !d.s.alive || d.s.caller != .none then
        let (d', r) := prim d (.sub (argOf ws)); (d', "sub" ++ resStr r)
      else
        let d0 : D := { d with chainLeft := 0, chainArg := argOf ws }
        let (d', r) := prim d0 (.sub (argOf ws)); (d', "sub" ++ resStr r)
  | "subr" :: _ =>
      let a := (natArg ws 2).getD 0
      -- a rejected operation does not touch the callback object
      if !d.s.alive || d.s.caller != .none then
        let (d', r) := prim d (.sub a); (d', "subr" ++ resStr r)
      else
        let d0 : D := { d with chainLeft := argOf ws, chainArg := a }
        let (d', r) := prim d0 (.sub a); (d', "subr" ++ resStr r)
  | "keep" :: _ => let (d', r) := prim d (.keep (argOf ws)); (d', "keep" ++ resStr r)
  | ["ktest"] => let (d', r) := syncOp d .ktest; (d', "ktest" ++ resStr r)
  | ["knot"] => let (d', r) := syncOp d .ktest; (d', "knot" ++ resStr r)       -- `!n`, negation undone
  | ["kawait"] => let (d', r) := prim d .kawait; (d', "kawait" ++ resStr r)
  | "call" :: _ => let (d', r) := prim d (.call (argOf ws)); (d', "call" ++ resStr r)
  | ["fwait"] => let (d', r) := fwaitOp d (fuelOf d); (d', "fwait" ++ resStr r)
  | ["fget"] => let (d', r) := prim d .futGet; (d', "fget" ++ resStr r)
  | ["fbool"] => let (d', r) := fwaitOp d (fuelOf d); (d', "fbool" ++ hasStr r)   -- `if (f)`: waits like f.wait(), reads only "has a result"
  | ["fnot"] => let (d', r) := fwaitOp d (fuelOf d); (d', "fnot" ++ hasStr r)     -- `if (!f)`, negation undone
  | ["fawait"] => let (d', r) := prim d .futAwait; (d', "fawait" ++ resStr r)
  | ["fhas"] => let (d', r) := prim d .futHas; (d', "fhas" ++ resStr r)
  | ["begin"] => let (d', r) := syncOp d .itBegin; (d', "begin" ++ resStr r)
  | ["inc"] => let (d', r) := syncOp d .itInc; (d', "inc" ++ resStr r)
  | ["pinc"] => let (d', r) := syncOp d .itPostInc; (d', "pinc" ++ resStr r)
  | ["deref"] => let (d', r) := prim d .itDeref; (d', "deref" ++ resStr r)
  | ["isend"] => let (d', r) := prim d .itIsEnd; (d', "isend" ++ resStr r)
  | ["for"] =>
      -- rejected before the loop starts?
      if !d.s.alive then (d, "for gone")
      else if d.s.caller != .none then (d, "for busy")
      else if d.s.mode then (d, "for n/a")
      else let (d', str) := forOp d; (d', "for" ++ str)
  | "complete" :: _ =>
      let k := argOf ws
      let (d', _) := prim d (.complete (if k < 8 then k else 0)); (d', "complete")
  | "tcomplete" :: _ =>
      let k := argOf ws
      let (d', _) := prim d (.complete (if k < 8 then k else 0)); (d', "tcomplete")
  | ["destroy"] => let (d', r) := prim d .destroy; (d', "destroy" ++ resStr r)
  | w :: _ => (d, w ++ " bad-op")
  | [] => (d, "")

def finishLine (d : D) (head : String) : D × String :=
  ({ d with out := #[] }, withEvents head d.out.toList)

def iterOps : List String := ["begin", "beginc", "inc", "pinc", "deref", "arrow", "isend", "for"]

/-- one input line. `noIter`: generator<T&> has no usable iterator (generator.h:68 names `generator_iterator<generator<T>>`, so
`begin()` / `end()` / range-for do not compile for it); the harness answers the iterator operations exactly as for a generator with
an argument type (`n/a`, `noit`), so they are answered on a copy of the state that says so and the state is left unchanged. -/
def accessOps : List String :=
  ["next", "nnext", "anext", "sub", "subr", "call", "while", "begin", "beginc", "inc", "pinc", "for"]

/-- For generator<T&> the harness does not dereference the future of a call once a later access has resumed the body (the
reference is over): `fwait` / `fget` / `fawait` then answer `stale`. Pure bookkeeping of the harness, mirrored here. -/
def doLine' (noIter : Bool) (d : D) (ws : List String) : D × String :=
  match ws with
  | w :: _ =>
      -- a consultation of the kept object is an access unless the object has answered true before (co_await always is one)
      let kAccess := d.s.kept != none && ((w == "kawait") || ((w == "ktest" || w == "knot") && !d.s.kstate))
      let isAccess := (accessOps.contains w && !(iterOps.contains w && (noIter || d.s.mode))) || kAccess
      let passes := isAccess && d.s.alive && d.s.caller == .none
      -- the argument reference of a kept object created for a generator with argument type is over once another access started
      if passes && kAccess && d.s.mode && !d.kValid then (d, w ++ " stale")
      else
      let d := if passes then { d with futFresh := false, kValid := false } else d
      if d.refMode && !d.futFresh && ["fwait", "fget", "fawait"].contains w && d.s.fut != .none then (d, w ++ " stale")
      else
        let (d1, line) :=
          if noIter && iterOps.contains w then
            let (_, line) := doLine { d with s := { d.s with mode := true } } ws
            (d, line)
          else doLine d ws
        let d2 := if w == "call" && (line == "call pending" || line.startsWith "call ready") then { d1 with futFresh := true } else d1
        let d3 := if w == "destroy" && line.startsWith "destroy" && !d2.s.alive then { d2 with futFresh := false } else d2
        let d4 := if w == "keep" && line == "keep" then { d3 with kValid := true } else d3
        (d4, line)
  | [] => doLine d ws

/-- `co <op>`: the operation is issued from inside a running coroutine (the consumer's thread is in coroutine mode). A blocking
wait on a pending future is refused there by the library's own assert ("Blocking wait in a coroutine"): the harness does not make
it (`would-block`). -/
def doLineCtx (noIter : Bool) (d : D) (ws : List String) : D × String :=
  match ws with
  | "co" :: rest =>
      match rest with
      | w :: _ =>
          if ["fwait", "fbool", "fnot"].contains w && d.s.fut == .pending then (d, "co " ++ w ++ " would-block")
          else
            let d0 := (prim d (.ctx true)).1
            let (d1, line) := doLine' noIter d0 rest
            ((prim d1 (.ctx false)).1, "co " ++ line)
      | [] => (d, "co bad-op")
  | _ => doLine' noIter d ws

partial def loop (lines : Array String) (i : Nat) (mode : Bool) (st : Option D) (noIter : Bool := false)
    (refMode : Bool := false) : IO Unit := do
  if h : i < lines.size then
    let ws := words lines[i]
    match ws, st with
    | ("case" :: id :: m :: _), _ =>
        IO.println s!"case {id}"
        -- rv / ra: generator<int&>, generator<int&,int>; sv / sa: generator<mval>, generator<mval,int> (a value type whose move
        -- empties the source): same model
        loop lines (i+1) (m == "a" || m == "ra" || m == "sa") none (m == "rv") (m == "rv" || m == "ra")
    | ("script" :: acts), none =>
        IO.println "script"
        loop lines (i+1) mode (some { s := init mode (acts.filterMap parseAct), refMode := refMode }) noIter refMode
    | ["end"], some d =>
        let d1 := drain d (fuelOf d)
        let d2 := if d1.s.alive then (prim d1 .destroy).1 else d1
        let (once, multi) := countGuards d2.s
        let fs := if d1.refMode && !d1.futFresh && d2.s.fut != .none then "stale" else match d2.s.fut with
          | .none => "none"
          | .pending => "pending"
          | .ready i => itemStr i
        let (_, out) := finishLine d2 s!"end made={d2.s.made} once={once} multi={multi} fut={fs}"
        IO.println out
        loop lines (i+1) mode none noIter refMode
    | [], _ => loop lines (i+1) mode st noIter refMode
    | _, some d =>
        let (d1, head) := doLineCtx noIter d ws
        let (d2, out) := finishLine d1 head
        IO.println out
        loop lines (i+1) mode (some d2) noIter refMode
    | _, none => loop lines (i+1) mode st noIter refMode
  else return ()

def main : IO Unit := do
  let lines ← readLines (← IO.getStdin)
  loop lines 0 false none
