import CoclsModel.Proto
import CoclsModel.ThreadPool
/-! Driver for C11: runs the thread-pool micro-step model on the scenarios of harness/h_pool.cpp. -/
open Cocls Cocls.Proto Cocls.Pool

def kindStr : Kind → String
  | Kind.co => "co" | Kind.fn => "fn" | Kind.det => "det" | Kind.rh => "rh" | Kind.ra => "ra" | Kind.aw => "aw"

def parseKind0 : String → Option Kind
  | "co" => some Kind.co | "fn" => some Kind.fn | "det" => some Kind.det
  | "detL" => some Kind.det | "detF" => some Kind.det | "detG" => some Kind.det   -- closure size / container spellings
  | "rh" => some Kind.rh | "ra" => some Kind.ra | "aw" => some Kind.aw
  | _ => none

def parseKind (k : String) : Option Kind :=
  if k.startsWith "fn" && (k.drop 2).toString.toList.all (fun ch => ch == 'V' || ch == 'L' || ch == 'T') then some Kind.fn
  else parseKind0 k

def b01 (b : Bool) : String := if b then "1" else "0"

def evStr : Ev → String
  | Ev.unlock t => s!"s {t} unlock mx"
  | Ev.cvEnter t => s!"s {t} cv-enter cv"
  | Ev.cvBlock t => s!"s {t} cv-block cv"
  | Ev.joinBlock t u => s!"s {t} join-block t{u}"
  | Ev.join t u => s!"s {t} join t{u}"
  | Ev.fin t => s!"s {t} fin"
  | Ev.lockBlock t => s!"s {t} lock-block mx"
  | Ev.submit j k t ex => s!"submit j{j} {kindStr k} t{t} exit={b01 ex}"
  | Ev.run j t cur => s!"run j{j} t{t} cur={b01 cur}"
  | Ev.cancel j t => s!"cancel j{j} t{t}"
  | Ev.value j t => s!"value j{j} t{t}"
  | Ev.exc j t => s!"exc j{j} t{t}"
  | Ev.thrown j t => s!"throw j{j} t{t}"
  | Ev.flagBlock t f => s!"s {t} flag-block f{f}"
  | Ev.flagSet f t => s!"flag-set f{f} t{t}"
  | Ev.unlockB t => s!"s {t} unlock mxB"
  | Ev.cvBlockB t => s!"s {t} cv-block cvB"
  | Ev.park n t => s!"park a{n} t{t}"
  | Ev.awReg t n => s!"s {t} aw-reg a{n}"
  | Ev.curStopped t r => s!"cur-stopped t{t} {b01 r}"
  | Ev.curEnq t r => s!"cur-enq t{t} {b01 r}"
  | Ev.curInline t => s!"cur-inline t{t}"
  | Ev.crash _ => "crash"
  | Ev.stopBBegin t => s!"stopB-begin t{t}"
  | Ev.stopBEnd t => s!"stopB-end t{t}"
  | Ev.destroyBBegin t => s!"destroyB-begin t{t}"
  | Ev.destroyedB t => s!"destroyedB t{t}"
  | Ev.destroyBSkip t => s!"destroyB-skip t{t}"
  | Ev.stopBegin t => s!"stop-begin t{t}"
  | Ev.stopEnd t => s!"stop-end t{t}"
  | Ev.destroyBegin t => s!"destroy-begin t{t}"
  | Ev.destroyed t => s!"destroyed t{t}"
  | Ev.destroySkip t => s!"destroy-skip t{t}"

/-- prims: `s` stop, `f`/`d` nested run / run_detached, `D` delete the pool, `x` closure destructor deletes the pool,
`w<digit>` wait for event, `e<digit>` signal event, `r` react to a cancellation by calling the pool -/
def parsePrimList : List Char → List Prim
  | [] => []
  | 'w' :: d :: r => Prim.wait (d.toNat - '0'.toNat) :: parsePrimList r
  | 'e' :: d :: r => Prim.set (d.toNat - '0'.toNat) :: parsePrimList r
  | 's' :: r => Prim.stop :: parsePrimList r
  | 'f' :: r => Prim.subFn :: parsePrimList r
  | 'd' :: r => Prim.subDet :: parsePrimList r
  | 'D' :: r => Prim.destroy :: parsePrimList r
  | 'r' :: r => Prim.react :: parsePrimList r
  | 'b' :: r => Prim.stopB :: parsePrimList r
  | 'q' :: r => Prim.curStopped :: parsePrimList r
  | 'a' :: r => Prim.curEnq :: parsePrimList r
  | 'c' :: r => Prim.resub :: parsePrimList r
  | 'v' :: d :: r => Prim.wait (10 + (d.toNat - '0'.toNat)) :: Prim.resolveNow (d.toNat - '0'.toNat) :: parsePrimList r
  | 'B' :: r => Prim.destroyB :: parsePrimList r
  | _ :: r => parsePrimList r

def parsePrims (w : String) : List Prim × Bool :=
  (parsePrimList w.toList, w.toList.contains 'x')

/-- `fn` may be spelled with suffix letters: `V` void-returning function, `L` large closure, `T` the function throws -/
def throwsOf (k : String) : List Prim :=
  if k.startsWith "fn" && (k.drop 2).toString.toList.contains 'T' then [Prim.throw_] else []

def digitOf (w : String) (i : Nat) : Nat := ((w.toList[i]?).map (fun ch => ch.toNat - '0'.toNat)).getD 0

/-- an op may stand for several actions: `res<n>` = wait until slot n is registered, then resolve it -/
def parseOps (w : String) : List Act :=
  if w.startsWith "res" && w.length == 4 then [Act.wait (10 + digitOf w 3), Act.resolveNow (digitOf w 3)]
  else if w.startsWith "ax" then
    match w.splitOn ":" with
    | [k] => [Act.park (digitOf k 2) []]
    | [k, p] => [Act.park (digitOf k 2) (parsePrims p).1]
    | _ => []
  else []

def parseOp (w : String) : Option Act :=
  if w == "stop" then some Act.stop
  else if w == "destroy" then some Act.destroy
  else if w == "curq" then some Act.curStopped
  else if w == "cura" then some Act.curEnq
  else if w == "curc" then some Act.resub
  else if w == "stopB" then some Act.stopB
  else if w == "destroyB" then some Act.destroyB
  else
    match w.splitOn ":" with
    | [k] => (parseKind k).map (fun kd => Act.submit kd (throwsOf k) false)
    | [k, p] => (parseKind k).map (fun kd => Act.submit kd ((parsePrims p).1 ++ throwsOf k) ((parsePrims p).2 && kd == Kind.det))
    | _ => none

def pick (n : Nat) (s : State) (want : Option Nat) : Option Nat :=
  match want with
  | some w => ((List.range n).map (fun k => (w + k) % n)).find? (enabled s)
  | none => (List.range n).find? (enabled s)

def allDone (n : Nat) (s : State) : Bool := (List.range n).all fun i => s.pc i == Pc.done

partial def runSched (c : Cfg) (s : State) (sched : List Nat) (acc : Array String) (fuel : Nat) :
    State × Array String × Bool :=
  if fuel = 0 then (s, acc, true) else
  if allDone c.nt s then (s, acc, false) else
  let (want, rest) := match sched with
    | w :: r => (some (w % c.nt), r)
    | [] => (none, [])
  match pick c.nt s want with
  | none => (s, acc, true)
  | some t =>
    let (s', evs) := threadStep c 100000 s t
    runSched c s' rest (acc ++ (evs.map evStr).toArray) (fuel - 1)

def futStr : Fut → String
  | Fut.none => "none" | Fut.pending => "pending" | Fut.value => "value" | Fut.broken => "broken"

def runCase (hdr : List String) (body : List (List String)) : List String := Id.run do
  let nw := max 1 ((hdr[3]? >>= String.toNat?).getD 1)
  let cls := body.filter (fun w => w.head? == some "c")
  let sched := (body.filter (fun w => w.head? == some "sched")).flatMap (fun w => (w.drop 1).filterMap String.toNat?)
  let scripts := (cls.map (fun w => (w.drop 1).flatMap (fun o => match parseOps o with
      | [] => (parseOp o).toList
      | l => l))).toArray
  let hasB := hdr.contains "B"
  let nc0 := nw + (if hasB then 1 else 0)
  let nt := nc0 + cls.length
  let cfg : Cfg := { nw := nw, nt := nt, script := fun t => scripts[t - nc0]?.getD [], hasB := hasB,
                     raOwns := !hdr.contains "asis-ra", dtorOutside := !hdr.contains "asis-dtor",
                     cvYield := hdr.contains "cvy", awHandleFirst := !hdr.contains "asis-aw", curNullOk := !hdr.contains "asis-cur" }
  let (s, out, stuck) := runSched cfg (init cfg) sched #[] 100000
  let mut lines := out
  if stuck then
    lines := lines.push "quiescent"
    lines := lines.push ("threads" ++ String.join ((List.range nt).map fun i => s!" {i}={if s.pc i == Pc.done then "F" else "B"}"))
  for j in [0:s.nextJob] do
    let on := match s.ranOn j with
      | some t => s!"t{t}"
      | none => "-"
    let fs := if s.fut j == Fut.value && (s.body j).contains Prim.throw_ then "exc" else futStr (s.fut j)
    lines := lines.push s!"job j{j} {kindStr (s.kind j)} ran={s.ran j} cancelled={s.cancelled j} value={s.valued j} on={on} fut={fs}"
  if s.destroyed then lines := lines.push "pool destroyed"
  else lines := lines.push s!"pool exit={b01 s.exit} queue={s.q.length} threads={s.threads.length}"
  if hasB then
    if s.bDestroyed then lines := lines.push "poolB destroyed"
    else lines := lines.push s!"poolB exit={b01 s.bExit} threads={if s.bHasThread then 1 else 0}"
  if !stuck then lines := lines.push "closures live=0"
  return (lines.toList ++ ["end"])

partial def loop (lines : Array String) (i : Nat) (hdr : List String) (body : List (List String)) : IO Unit := do
  if h : i < lines.size then
    let ws := words lines[i]
    match ws with
    | "case" :: _ :: _ => loop lines (i+1) ws []
    | ["end"] =>
        IO.println s!"case {hdr[1]?.getD "?"}"
        for l in runCase hdr body.reverse do IO.println l
        loop lines (i+1) [] []
    | [] => loop lines (i+1) hdr body
    | _ => loop lines (i+1) hdr (ws :: body)
  else return ()

def main : IO Unit := do
  let lines ← readLines (← IO.getStdin)
  loop lines 0 [] []
