import CoclsModel.Proto
import CoclsModel.LimitedQueue
/-! Driver for C10: runs the `limited_queue` model on the harness input (same grammar as harness/h_queue.cpp).

Kind `lq <limit>` (harness `run_case`): sequential; every out-of-lock resolution is performed right after the lock
region that decided it.

Kind `slq <limit>` (harness `run_slqcase`): every operation of the harness runs on its own thread and parks after a
lock region that moved a promise out of `_awaiters` / `_blocked`; the resolution is performed when the input says
`deliver k` (= `Op.deliver k` of the model), so other lock regions run in between.  Every line carries the number of
lock regions the operation entered: in the model every operation is exactly one lock region (`r=1`) and a resolution
none (`r=0`); an implementation that splits a lock region prints something else.  `destroy` / `end` first perform all
outstanding resolutions. -/
open Cocls Cocls.Proto Cocls.LQ

def outStr : Out → String
  | Out.val _ v => s!"v:{v}"
  | Out.ok => "ok"
  | Out.exc c => s!"exc:{c}"
  | Out.canceled => "canceled"

def evStr : Ev → String
  | Ev.pop id o => s!"pop#{id}={outStr o}"
  | Ev.push id o => s!"push#{id}={outStr o}"

def evKey : Ev → Nat × Nat
  | Ev.pop id _ => (0, id)
  | Ev.push id _ => (1, id)

/-- perform every in-flight resolution (the sequential harness has no other thread to delay them) -/
def flush (s : State) : Nat → State
  | 0 => s
  | n + 1 => if s.inflight.isEmpty then s else flush (step s (Op.deliver 0)).1 n

def parseOp (ws : List String) : Option Op :=
  match ws with
  | ["push", v] => v.toNat?.map Op.push
  | ["pop"] => some Op.pop
  | ["upop", c] => c.toNat?.map Op.upop
  | ["upush", c] => c.toNat?.map Op.upush
  | ["size"] => some Op.size
  | ["empty"] => some Op.empty
  | ["destroy"] => some Op.destroy
  | _ => none

def doOp (s : State) (op : Op) : State × String :=
  let n0 := s.completed.length
  let (s1, r) := step s op
  let s2 := flush s1 (s1.inflight.length + 1)
  let own : Option Ev := match r with
    | Res.push id true => some (Ev.push id Out.ok)
    | Res.pop id (some o) => some (Ev.pop id o)
    | _ => none
  let newEvs := (s2.completed.drop n0).filter (fun e => some e ≠ own)
  let head := match r with
    | Res.push id ready => s!"push#{id} " ++ (if ready then "ok" else "pending")
    | Res.pop id (some o) => s!"pop#{id} {outStr o}"
    | Res.pop id none => s!"pop#{id} pending"
    | Res.flag b => (match op with
        | Op.upop _ => "upop " | Op.upush _ => "upush " | _ => "empty ") ++ boolStr b
    | Res.num n => s!"size {n}"
    | Res.unit => "destroy"
    | Res.bad => "bad-op"
  (s2, withEvents head ((sortBy evKey newEvs).map evStr))

/-! ### scheduled mode (`slq`) -/

/-- the call that is parked with the i-th in-flight resolution: what it will return, and its own future's completion -/
structure Origin where
  label : String              -- `push#3` | `pop#1` | `upush` | `upop`
  status : String             -- `ok` | `v:5` | `1`
  own : Option Ev
  deriving Inhabited

structure SState where
  s : State
  origins : List Origin := []   -- parallel to `s.inflight`

/-- one lock region, no resolution performed -/
def sOp (d : SState) (op : Op) : SState × String :=
  let (s1, r) := step d.s op
  let grew := s1.inflight.length > d.s.inflight.length
  let (head, origin) : String × Option Origin := match r with
    | Res.push id ready =>
        if grew then (s!"push#{id} paused", some ⟨s!"push#{id}", "ok", some (Ev.push id Out.ok)⟩)
        else (s!"push#{id} " ++ (if ready then "ok" else "pending"), none)
    | Res.pop id (some o) =>
        if grew then (s!"pop#{id} paused", some ⟨s!"pop#{id}", outStr o, some (Ev.pop id o)⟩)
        else (s!"pop#{id} {outStr o}", none)
    | Res.pop id none => (s!"pop#{id} pending", none)
    | Res.flag b =>
        let name := match op with | Op.upop _ => "upop" | Op.upush _ => "upush" | _ => "empty"
        if grew then (name ++ " paused", some ⟨name, "1", none⟩) else (name ++ " " ++ boolStr b, none)
    | Res.num n => (s!"size {n}", none)
    | Res.unit => ("destroy", none)
    | Res.bad => ("bad-op", none)
  let origins := match origin with
    | some o => d.origins ++ [o]
    | none => d.origins
  ({ s := s1, origins := origins }, if head == "bad-op" then head else head ++ " r=1")

/-- `deliver k`: the k-th parked call performs its resolution and returns -/
def sDeliver (d : SState) (k : Nat) : SState × String :=
  match d.s.inflight[k]?, d.origins[k]? with
  | some e, some o =>
      let s1 := (step d.s (Op.deliver k)).1
      ({ s := s1, origins := d.origins.eraseIdx k }, withEvents s!"deliver r=0 ret={o.label}:{o.status}" [evStr e])
  | _, _ => (d, "deliver none")

/-- `destroy` / `end`: every parked call finishes (in the order in which they parked), then the queue dies -/
def sDestroy (d : SState) (head : String) : String :=
  let flushed := d.s.inflight ++ d.origins.filterMap (·.own)
  let s0 := flush d.s (d.s.inflight.length + 1)
  let n0 := s0.completed.length
  let s1 := (step s0 Op.destroy).1
  withEvents head ((sortBy evKey (flushed ++ s1.completed.drop n0)).map evStr)

partial def skipToEnd (lines : Array String) (i : Nat) : Nat :=
  if h : i < lines.size then
    if words lines[i] == ["end"] then i + 1 else skipToEnd lines (i + 1)
  else i

partial def sLoop (lines : Array String) (i : Nat) (d : SState) : IO Nat := do
  if h : i < lines.size then
    let ws := words lines[i]
    match ws with
    | [] => sLoop lines (i+1) d
    | ["end"] =>
        IO.println (sDestroy d "end")
        return i + 1
    | ["destroy"] =>
        IO.println (sDestroy d "destroy")
        IO.println "end"
        return skipToEnd lines (i+1)
    | ["deliver", k] =>
        match k.toNat? with
        | some k =>
            let (d', out) := sDeliver d k
            IO.println out
            sLoop lines (i+1) d'
        | none => IO.println "bad-op"; sLoop lines (i+1) d
    | _ =>
        match parseOp ws with
        | some op =>
            let (d', out) := sOp d op
            IO.println out
            sLoop lines (i+1) d'
        | none => IO.println "bad-op"; sLoop lines (i+1) d
  else return i

partial def loop (lines : Array String) (i : Nat) (st : Option State) : IO Unit := do
  if h : i < lines.size then
    let ws := words lines[i]
    match ws, st with
    | ("case" :: id :: "lq" :: lim :: _), _ =>
        IO.println s!"case {id}"
        loop lines (i+1) (some (init (lim.toNat?.getD 1)))
    | ("case" :: id :: "slq" :: lim :: _), _ =>
        IO.println s!"case {id}"
        let j ← sLoop lines (i+1) { s := init (lim.toNat?.getD 1) }
        loop lines j none
    | ["end"], some s =>
        let (_, out) := if s.alive then doOp s Op.destroy else (s, "destroy")
        -- the harness prints `end ; <events>`
        IO.println ("end" ++ (out.drop 7).toString)
        loop lines (i+1) none
    | _, some s =>
        if !s.alive then loop lines (i+1) st   -- rest of the case is swallowed after destroy
        else match parseOp ws with
          | some op =>
              let (s', out) := doOp s op
              IO.println out
              if op == Op.destroy then IO.println "end"
              loop lines (i+1) (if op == Op.destroy then none else some s')
          | none => IO.println "bad-op"; loop lines (i+1) st
    | _, none => loop lines (i+1) st
  else return ()

def main : IO Unit := do
  let lines ← readLines (← IO.getStdin)
  loop lines 0 none
