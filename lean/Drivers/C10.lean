import CoclsModel.Proto
import CoclsModel.LimitedQueue
/-! Driver for C10: runs the `limited_queue` model on the harness input (same grammar as harness/h_queue.cpp). -/
open Cocls Cocls.Proto Cocls.LQ

def outStr : Out → String
  | Out.val _ v => s!"v:{v}"
  | Out.ok => "ok"
  | Out.exc c => s!"exc:{c}"
  | Out.canceled => "canceled"

def evStr : Ev → String
  | Ev.pop id o => s!"pop#{id}={outStr o}"
  | Ev.push id o => s!"push#{id}={outStr o}"

def evKey : Ev → Nat × Nat
  | Ev.pop id _ => (0, id)
  | Ev.push id _ => (1, id)

/-- perform every in-flight resolution (the sequential harness has no other thread to delay them) -/
def flush (s : State) : Nat → State
  | 0 => s
  | n + 1 => if s.inflight.isEmpty then s else flush (step s (Op.deliver 0)).1 n

def parseOp (ws : List String) : Option Op :=
  match ws with
  | ["push", v] => v.toNat?.map Op.push
  | ["pop"] => some Op.pop
  | ["upop", c] => c.toNat?.map Op.upop
  | ["upush", c] => c.toNat?.map Op.upush
  | ["size"] => some Op.size
  | ["empty"] => some Op.empty
  | ["destroy"] => some Op.destroy
  | _ => none

def doOp (s : State) (op : Op) : State × String :=
  let n0 := s.completed.length
  let (s1, r) := step s op
  let s2 := flush s1 (s1.inflight.length + 1)
  let own : Option Ev := match r with
    | Res.push id true => some (Ev.push id Out.ok)
    | Res.pop id (some o) => some (Ev.pop id o)
    | _ => none
  let newEvs := (s2.completed.drop n0).filter (fun e => some e ≠ own)
  let head := match r with
    | Res.push id ready => s!"push#{id} " ++ (if ready then "ok" else "pending")
    | Res.pop id (some o) => s!"pop#{id} {outStr o}"
    | Res.pop id none => s!"pop#{id} pending"
    | Res.flag b => (match op with
        | Op.upop _ => "upop " | Op.upush _ => "upush " | _ => "empty ") ++ boolStr b
    | Res.num n => s!"size {n}"
    | Res.unit => "destroy"
    | Res.bad => "bad-op"
  (s2, withEvents head ((sortBy evKey newEvs).map evStr))

partial def loop (lines : Array String) (i : Nat) (st : Option State) : IO Unit := do
  if h : i < lines.size then
    let ws := words lines[i]
    match ws, st with
    | ("case" :: id :: "lq" :: lim :: _), _ =>
        IO.println s!"case {id}"
        loop lines (i+1) (some (init (lim.toNat?.getD 1)))
    | ["end"], some s =>
        let (_, out) := if s.alive then doOp s Op.destroy else (s, "destroy")
        -- the harness prints `end ; <events>`
        IO.println ("end" ++ (out.drop 7).toString)
        loop lines (i+1) none
    | _, some s =>
        if !s.alive then loop lines (i+1) st   -- rest of the case is swallowed after destroy
        else match parseOp ws with
          | some op =>
              let (s', out) := doOp s op
              IO.println out
              if op == Op.destroy then IO.println "end"
              loop lines (i+1) (if op == Op.destroy then none else some s')
          | none => IO.println "bad-op"; loop lines (i+1) st
    | _, none => loop lines (i+1) st
  else return ()

def main : IO Unit := do
  let lines ← readLines (← IO.getStdin)
  loop lines 0 none
