import CoclsModel.Proto
import CoclsModel.LimitedQueue
import Drivers.SchedCommon
/-! Driver for C10: runs the `limited_queue` model on the harness input (same grammar as harness/h_queue.cpp).

Kind `lq <limit> [nl|cp]` (harness `run_case`): sequential; every out-of-lock resolution is performed right after the lock
region that decided it.  (`nl`: Lock = no_lock, `cp`: copy-only item type - the model is the same.)

Throwing items: `pushthrow` (the item refuses construction), `pushmv v g [n]`, `popthrow g [n]`, `cothrow g [n]` (the pop
is issued by a coroutine that co_awaits it; the same model operation), `upushthrow c [g [n]]`: the call runs under the
fault plan (g, n) - its hand-overs number g … g+n-1 throw (defaults g = 1, n = 1).  A call that throws prints
`<op> threw` and uses up no push / pop id in the sequential kind.

Kind `slq <limit>` (harness `run_sched`): scheduled interleavings, see `Drivers/SchedCommon.lean`; this file supplies
the model side (`schedModel`): one lock region = one step of the `LimitedQueue.lean` model, `deliver` of a paused call =
`Op.deliver`.  The harness numbers pushes and pops in the order in which their lines are read, the model in the order
of their lock regions; `popMap` / `pushMap` translate. -/
open Cocls Cocls.Proto Cocls.LQ

def outStr : Out → String
  | Out.val _ v => s!"v:{v}"
  | Out.ok => "ok"
  | Out.exc c => s!"exc:{c}"
  | Out.canceled => "canceled"
  | Out.itemerr => "itemerr"

def evStr : Ev → String
  | Ev.pop id o => s!"pop#{id}={outStr o}"
  | Ev.push id o => s!"push#{id}={outStr o}"

def evKey : Ev → Nat × Nat
  | Ev.pop id _ => (0, id)
  | Ev.push id _ => (1, id)

/-- perform every in-flight resolution (the sequential harness has no other thread to delay them) -/
def flush (s : State) : Nat → State
  | 0 => s
  | n + 1 => if s.inflight.isEmpty then s else flush (step s (Op.deliver 0)).1 n

def parseOp (ws : List String) : Option Op :=
  match ws with
  | ["push", v] => v.toNat?.map Op.push
  | ["pop"] => some Op.pop
  | ["upop", c] => c.toNat?.map Op.upop
  | ["upush", c] => c.toNat?.map Op.upush
  | ["size"] => some Op.size
  | ["empty"] => some Op.empty
  | ["destroy"] => some Op.destroy
  | ["pushthrow"] => some Op.pushthrow
  | "pushmv" :: v :: g :: rest =>
      match v.toNat?, g.toNat?, (rest.head?.map String.toNat?).getD (some 1), decide (rest.length ≤ 1) with
      | some v, some g, some n, true => some (Op.pushmv v g n)
      | _, _, _, _ => none
  | "popthrow" :: rest | "cothrow" :: rest =>
      match (rest[0]?.map String.toNat?).getD (some 1), (rest[1]?.map String.toNat?).getD (some 1), decide (rest.length ≤ 2) with
      | some g, some n, true => some (Op.popthrow g n)
      | _, _, _ => none
  | "upushthrow" :: c :: rest =>
      match c.toNat?, (rest[0]?.map String.toNat?).getD (some 1), (rest[1]?.map String.toNat?).getD (some 1), decide (rest.length ≤ 2) with
      | some c, some g, some n, true => some (Op.upushthrow c g n)
      | _, _, _, _ => none
  | _ => none

def doOp (s : State) (op : Op) : State × String :=
  let n0 := s.completed.length
  let (s1, r) := step s op
  let s2 := flush s1 (s1.inflight.length + 1)
  let own : Option Ev := match r with
    | Res.push id true => some (Ev.push id Out.ok)
    | Res.pop id (some o) => some (Ev.pop id o)
    | _ => none
  let newEvs := (s2.completed.drop n0).filter (fun e => some e ≠ own)
  let head := match r with
    | Res.push id ready => s!"push#{id} " ++ (if ready then "ok" else "pending")
    | Res.pop id (some o) => s!"pop#{id} {outStr o}"
    | Res.pop id none => s!"pop#{id} pending"
    | Res.flag b => (match op with
        | Op.upop _ => "upop " | Op.upush _ => "upush " | Op.upushthrow _ _ _ => "upush " | _ => "empty ") ++ boolStr b
    | Res.threw => (match op with
        | Op.pushthrow => "pushthrow" | Op.pushmv _ _ _ => "pushmv" | Op.popthrow _ _ => "popthrow"
        | Op.upushthrow _ _ _ => "upushthrow" | _ => "?") ++ " threw"
    | Res.num n => s!"size {n}"
    | Res.unit => "destroy"
    | Res.bad => "bad-op"
  (s2, withEvents head ((sortBy evKey newEvs).map evStr))

/-! ### scheduled mode (`slq`) -/

structure SSt where
  st : State
  popMap : List (Nat × Nat) := []      -- model pop id ↦ harness pop id
  pushMap : List (Nat × Nat) := []
  groups : List Nat := []              -- per paused call (in parking order): how many resolutions it left in flight

def lookup (m : List (Nat × Nat)) (mid : Nat) : Nat := (m.find? (·.1 == mid)).map (·.2) |>.getD mid

def sevOf (s : SSt) : Ev → Sched.SEv
  | Ev.pop id o => (0, lookup s.popMap id, s!"pop#{lookup s.popMap id}={outStr o}")
  | Ev.push id o => (1, lookup s.pushMap id, s!"push#{lookup s.pushMap id}={outStr o}")

def schedOp (ws : List String) : Option Op :=
  match parseOp ws with
  | some Op.destroy => none
  | o => o

def schedModel : Sched.Model SSt where
  issue ws ctr :=
    match schedOp ws with
    | none => none
    | some Op.pop => some (s!"pop#{ctr.1}", ctr.1, (ctr.1 + 1, ctr.2))
    | some (Op.popthrow _ _) => some (s!"pop#{ctr.1}", ctr.1, (ctr.1 + 1, ctr.2))     -- the id is used up even if it throws
    | some (Op.push _) => some (s!"push#{ctr.2}", ctr.2, (ctr.1, ctr.2 + 1))
    | some (Op.pushmv _ _ _) => some (s!"push#{ctr.2}", ctr.2, (ctr.1, ctr.2 + 1))
    | some (Op.upushthrow _ _ _) => some ("upush", 0, ctr)
    | some _ => some (ws.headD "", 0, ctr)
  apply s ws hid :=
    match schedOp ws with
    | none => { st := s, status := "bad", paused := false, own := none }
    | some op =>
      let (s1, r) := step s.st op
      let paused := s1.inflight.length > s.st.inflight.length
      let s : SSt := if paused then { s with groups := s.groups ++ [s1.inflight.length - s.st.inflight.length] } else s
      match r with
      | Res.push id ready =>
          let s' : SSt := { s with st := s1, pushMap := (id, hid) :: s.pushMap }
          if ready then { st := s', status := "ok", paused := paused, own := some (1, hid, s!"push#{hid}=ok") }
          else { st := s', status := "pending", paused := paused, own := none }
      | Res.pop id o =>
          let s' : SSt := { s with st := s1, popMap := (id, hid) :: s.popMap }
          match o with
          | some o => { st := s', status := outStr o, paused := paused, own := some (0, hid, s!"pop#{hid}={outStr o}") }
          | none => { st := s', status := "pending", paused := paused, own := none }
      | Res.flag b => { st := { s with st := s1 }, status := boolStr b, paused := paused, own := none }
      | Res.num n => { st := { s with st := s1 }, status := toString n, paused := paused, own := none }
      | Res.threw => { st := { s with st := s1 }, status := "threw", paused := paused, own := none }
      | _ => { st := { s with st := s1 }, status := "bad", paused := paused, own := none }
  deliver s k :=
    -- the k-th paused call performs all the resolutions it left in flight (one after the other, in order)
    match s.groups[k]? with
    | none => (s, [])
    | some sz =>
      let off := (s.groups.take k).foldl (· + ·) 0
      let evs := (s.st.inflight.drop off).take sz
      let st' := (List.range sz).foldl (fun st _ => (step st (Op.deliver off)).1) s.st
      ({ s with st := st', groups := s.groups.eraseIdx k }, evs.map (sevOf s))
  destroy s :=
    let n0 := s.st.completed.length
    let s1 := (step s.st Op.destroy).1
    (s1.completed.drop n0).map (sevOf s)

partial def loop (lines : Array String) (i : Nat) (st : Option State) : IO Unit := do
  if h : i < lines.size then
    let ws := words lines[i]
    match ws, st with
    | ("case" :: id :: "lq" :: lim :: _), _ =>
        IO.println s!"case {id}"
        loop lines (i+1) (some (init (lim.toNat?.getD 1)))
    | ("case" :: id :: "slq" :: lim :: _), _ =>
        IO.println s!"case {id}"
        let j ← Sched.caseLoop schedModel lines (i+1) { st := { st := init (lim.toNat?.getD 1) } }
        loop lines j none
    | ["end"], some s =>
        let (_, out) := if s.alive then doOp s Op.destroy else (s, "destroy")
        -- the harness prints `end ; <events>`
        IO.println ("end" ++ (out.drop 7).toString)
        loop lines (i+1) none
    | _, some s =>
        if !s.alive then loop lines (i+1) st   -- rest of the case is swallowed after destroy
        else match parseOp ws with
          | some op =>
              let (s', out) := doOp s op
              -- `cothrow`: the same pop, issued by a coroutine
              IO.println (if ws.head? == some "cothrow" && out.startsWith "popthrow threw" then "cothrow" ++ (out.drop 8).toString else out)
              if op == Op.destroy then IO.println "end"
              loop lines (i+1) (if op == Op.destroy then none else some s')
          | none => IO.println "bad-op"; loop lines (i+1) st
    | _, none => loop lines (i+1) st
  else return ()

def main : IO Unit := do
  let lines ← readLines (← IO.getStdin)
  loop lines 0 none
