import CoclsModel.Proto
import CoclsModel.Publisher
/-! Driver for C16: runs the `publisher::queue` + `subscriber` model on the harness input
(same grammar as harness/h_publisher.cpp). -/
open Cocls Cocls.Proto Cocls.Pub

/-- what the harness knows about one subscriber id -/
structure DSub where
  h : Nat
  kind : Nat        -- how the pending `next()` (if any) was started: 0 by hand (rdy/sus/res), 1 blocking thread, 2 coroutine,
                    -- 3 a range-for consumer thread (goes on to the next `next()` after every value)
  gone : Bool
  follow : Option Nat := none   -- coroutine: subscriber whose `next()` it awaits as soon as it is resumed
  deriving Inhabited

structure D where
  s : State
  subs : List (Nat × DSub) := []     -- by sid; a sid is used once per case
  pubAlive : Bool := true

def D.find (d : D) (sid : Nat) : Option DSub := (d.subs.find? (·.1 == sid)).map (·.2)

def D.live (d : D) (sid : Nat) : Option DSub :=
  match d.find sid with
  | some x => if x.gone then none else some x
  | none => none

def D.put (d : D) (sid : Nat) (x : DSub) : D :=
  { d with subs := (d.subs.filter (·.1 != sid)) ++ [(sid, x)] }

def regOf (s : State) (h : Nat) : Reg := s.regs.getD h default

def posStr (s : State) (h : Nat) : String := s!" pos={(regOf s h).pos}"

def valStr : Option Nat → String
  | some v => s!"v:{v}"
  | none => "eof"

def parseMode : String → Option Mode
  | "a" => some Mode.all
  | "b" => some Mode.behind
  | "r" => some Mode.recent
  | _ => none

/-- `next()` as a whole (coroutine, blocking thread): ready? else subscribe; unless parked, fetch.
Returns `none` when the subscriber is not free for a new `next()`. -/
def wholeNextCore (d : D) (sid : Nat) (x : DSub) (kind : Nat) (follow : Option Nat) : Option (D × String × Bool) :=
  match step d.s (Op.advance x.h) with
  | (s1, Res.flag true) =>
      let (s2, r) := step s1 (Op.getValue x.h)
      let txt := match r with | Res.value v => valStr v | _ => "?"
      some ({ d with s := s2 }, s!"{txt}@{(regOf s2 x.h).pos}", false)
  | (s1, Res.flag false) =>
      (match step s1 (Op.advanceSuspend x.h) with
      | (s2, Res.flag true) =>
          some ({ d with s := s2 }.put sid { x with kind := kind, follow := follow }, s!"parked@{(regOf s2 x.h).pos}", true)
      | (s2, Res.flag false) =>
          let (s3, r) := step s2 (Op.getValue x.h)
          let txt := match r with | Res.value v => valStr v | _ => "?"
          some ({ d with s := s3 }, s!"{txt}@{(regOf s3 x.h).pos}", false)
      | _ => none)
  | _ => none

/-- a resumed listener coroutine goes straight into `next()` of subscriber `b` (inside the wake-up pass) -/
def followNext (d : D) (b : Nat) (snap : List Nat := []) : D × (Nat × String) :=
  match d.live b with
  | none => (d, (b, s!"c{b}=bad"))
  | some x =>
    -- canonical rule shared with the harness: a subscriber that was itself waiting when the queue-wide operation
    -- began is not taken for a follow-up (keeps the trace independent of the order of resumptions within one pass)
    if snap.contains b then (d, (b, s!"c{b}=bad")) else
    match wholeNextCore d b x 2 none with
    | none => (d, (b, s!"c{b}=bad"))
    | some (d1, txt, _) => (d1, (b, s!"c{b}={txt}"))

/-- the range-for consumer thread: `next()` after `next()` until it parks or the stream ends; every value / the end is
an event -/
def rforLoop (d : D) (sid : Nat) : Nat → D × List (Nat × String)
  | 0 => (d, [])
  | fuel + 1 =>
    match d.live sid with
    | none => (d, [])
    | some x =>
      match wholeNextCore d sid x 3 none with
      | none => (d, [])
      | some (d1, txt, parked) =>
        if parked then (d1, [])
        else if txt.startsWith "eof" then (d1, [(sid, s!"b{sid}={txt}")])
        else
          let (d2, evs) := rforLoop d1 sid fuel
          (d2, (sid, s!"b{sid}={txt}") :: evs)

/-- after a step that released subscribers (in `_regs` order, as the wake-up loop runs): hand-driven ones just see their
awaiter called; a coroutine goes on to `check_next()` at once and then into its follow-up `next()`; blocked threads
run concurrently and are joined after the operation (second pass) -/
def wakeEvents (d : D) (woken : List Nat) (snap : List Nat := []) : D × List (Nat × String) :=
  let pass1 := woken.foldl (fun (acc : D × List (Nat × String)) sid =>
    let (d, evs) := acc
    match d.live sid with
    | none => (d, evs)
    | some x =>
      if x.kind == 0 then (d, evs ++ [(sid, s!"w{sid}")])
      else if x.kind == 2 then
        let (s1, r) := step d.s (Op.getValue x.h)
        let txt := match r with
          | Res.value v => valStr v
          | _ => "?"
        let d1 := { d with s := s1 }.put sid { x with kind := 0, follow := none }
        let evs1 := evs ++ [(sid, s!"c{sid}={txt}@{(regOf s1 x.h).pos}")]
        match x.follow with
        | none => (d1, evs1)
        | some b => let (d2, e) := followNext d1 b snap; (d2, evs1 ++ [e])
      else (d, evs)) (d, [])
  woken.foldl (fun (acc : D × List (Nat × String)) sid =>
    let (d, evs) := acc
    match d.live sid with
    | none => (d, evs)
    | some x =>
      if x.kind == 1 then
        let (s1, r) := step d.s (Op.getValue x.h)
        let txt := match r with
          | Res.value v => valStr v
          | _ => "?"
        ({ d with s := s1 }.put sid { x with kind := 0 }, evs ++ [(sid, s!"b{sid}={txt}@{(regOf s1 x.h).pos}")])
      else if x.kind == 3 then
        let (s1, r) := step d.s (Op.getValue x.h)
        let d1 := { d with s := s1 }.put sid { x with kind := 0 }
        let ev := (sid, s!"b{sid}={match r with | Res.value v => valStr v | _ => "?"}@{(regOf s1 x.h).pos}")
        match r with
        | Res.value (some _) => let (d2, more) := rforLoop d1 sid 100000; (d2, evs ++ [ev] ++ more)
        | _ => (d1, evs ++ [ev])
      else (d, evs)) pass1

def evLine (head : String) (evs : List (Nat × String)) : String :=
  -- canonical order: by subscriber, rejected follow-ups last, otherwise in the order they happened
  withEvents head ((sortBy (fun e => (e.1, if e.2.endsWith "=bad" then 1 else 0)) evs).map (·.2))

/-- a queue-wide step (publish, close, kick): returns the new driver state and the printed line -/
def globalOp (d : D) (op : Op) (head : State → String) : D × String :=
  let (s1, r) := step d.s op
  let woken := match r with
    | Res.woken l => l
    | _ => []
  let snap := d.subs.filterMap (fun (p : Nat × DSub) => if !p.2.gone && (regOf d.s p.2.h).awt then some p.1 else none)
  let (d2, evs) := wakeEvents { d with s := s1 } woken snap
  -- the wake-up pass is over: second lock region of push_lk
  let d3 := if s1.inWake > d.s.inWake then { d2 with s := (step d2.s Op.relock).1 } else d2
  (d3, evLine (head d3.s) evs)

def subscribeOp (d : D) (sid : Nat) (op : Op) (name : String) : D × String :=
  match d.find sid with
  | some _ => (d, "bad")
  | none =>
    match step d.s op with
    | (s1, Res.handle h) => ({ d with s := s1 }.put sid { h := h, kind := 0, gone := false }, s!"{name} {sid}{posStr s1 h}")
    | _ => (d, "bad")

/-- `blk` / `co` / `chain` operation line -/
def wholeNext (d : D) (sid : Nat) (x : DSub) (name : String) (kind : Nat) (follow : Option Nat := none) : D × String :=
  match wholeNextCore d sid x kind follow with
  | none => (d, "bad")
  | some (d1, txt, parked) =>
      let head := s!"{name} {sid} " ++ (txt.replace "@" " pos=")
      if parked then (d1, head)
      else match follow with
        | none => (d1, head)
        | some b => let (d2, e) := followNext d1 b; (d2, evLine head [e])

def doLine (d : D) (ws : List String) : D × String :=
  match ws with
  | ["sub", sid, m] =>
      (match sid.toNat?, parseMode m with
      | some sid, some m => if d.pubAlive then subscribeOp d sid (Op.subRecent sid m) "sub" else (d, "bad")
      | _, _ => (d, "bad"))
  | ["subat", sid, m, p] =>
      (match sid.toNat?, parseMode m, p.toNat? with
      | some sid, some m, some p => if d.pubAlive then subscribeOp d sid (Op.subAt sid m p) "subat" else (d, "bad")
      | _, _, _ => (d, "bad"))
  | ["copy", sid, src] =>
      (match sid.toNat?, src.toNat? with
      | some sid, some src =>
          (match d.live src with
          | some x => subscribeOp d sid (Op.subCopy sid x.h) "copy"
          | none => (d, "bad"))
      | _, _ => (d, "bad"))
  | ["rdy", sid] =>
      (match sid.toNat?.bind d.live with
      | some x =>
          (match step d.s (Op.advance x.h) with
          | (s1, Res.flag b) => ({ d with s := s1 }, s!"rdy {sid} {boolStr b}{posStr s1 x.h}")
          | _ => (d, "bad"))
      | none => (d, "bad"))
  | ["sus", sid] =>
      (match sid.toNat?.bind d.live with
      | some x =>
          (match step d.s (Op.advanceSuspend x.h) with
          | (s1, Res.flag b) => ({ d with s := s1 }, s!"sus {sid} {boolStr b}{posStr s1 x.h}")
          | _ => (d, "bad"))
      | none => (d, "bad"))
  | ["res", sid] =>
      (match sid.toNat?.bind d.live with
      | some x =>
          (match step d.s (Op.getValue x.h) with
          | (s1, Res.value v) => ({ d with s := s1 }, s!"res {sid} {valStr v}{posStr s1 x.h}")
          | _ => (d, "bad"))
      | none => (d, "bad"))
  | ["poll", sid] =>
      (match sid.toNat?.bind d.live with
      | some x =>
          (match step d.s (Op.advance x.h) with
          | (s1, Res.flag true) =>
              (match step s1 (Op.getValue x.h) with
              | (s2, Res.value v) => ({ d with s := s2 }, s!"poll {sid} {valStr v}{posStr s2 x.h}")
              | _ => (d, "bad"))
          | (s1, Res.flag false) => ({ d with s := s1 }, s!"poll {sid} none{posStr s1 x.h}")
          | _ => (d, "bad"))
      | none => (d, "bad"))
  | ["pollr", sid] =>
      (match sid.toNat?.bind d.live with
      | some x =>
          (match step d.s (Op.advance x.h) with
          | (s1, Res.flag true) =>
              (match step s1 (Op.getValue x.h) with
              | (s2, Res.value (some v)) => ({ d with s := s2 }, s!"pollr {sid} v:{v}{posStr s2 x.h}")
              | (s2, Res.value none) => ({ d with s := s2 }, s!"pollr {sid} no{posStr s2 x.h}")
              | _ => (d, "bad"))
          | (s1, Res.flag false) => ({ d with s := s1 }, s!"pollr {sid} no{posStr s1 x.h}")
          | _ => (d, "bad"))
      | none => (d, "bad"))
  | ["blk", sid] =>
      (match sid.toNat?, sid.toNat?.bind d.live with
      | some n, some x => wholeNext d n x "blk" 1
      | _, _ => (d, "bad"))
  | ["blk", sid, _spelling] =>
      -- bool / not (`operator!`) / it / itpost (generator_iterator): the same model step
      (match sid.toNat?, sid.toNat?.bind d.live with
      | some n, some x => wholeNext d n x "blk" 1
      | _, _ => (d, "bad"))
  | ["co", sid, _spelling] =>
      (match sid.toNat?, sid.toNat?.bind d.live with
      | some n, some x => wholeNext d n x "co" 2
      | _, _ => (d, "bad"))
  | ["rfor", sid] =>
      (match sid.toNat?, sid.toNat?.bind d.live with
      | some n, some x =>
          if (regOf d.s x.h).phase != Phase.idle then (d, "bad")
          else
            let (d1, evs) := rforLoop d n 100000
            (d1, evLine s!"rfor {sid}" evs)
      | _, _ => (d, "bad"))
  | ["co", sid] =>
      (match sid.toNat?, sid.toNat?.bind d.live with
      | some n, some x => wholeNext d n x "co" 2
      | _, _ => (d, "bad"))
  | ["chain", sid, b] =>
      (match sid.toNat?, sid.toNat?.bind d.live, b.toNat? with
      | some n, some x, some b => wholeNext d n x "chain" 2 (some b)
      | _, _, _ => (d, "bad"))
  | "pubn" :: vals =>
      globalOp d (Op.push (vals.filterMap String.toNat?)) (fun s => s!"pubn q={s.q.length}")
  | "pubi" :: vals =>
      -- the batch publish fed from a single-pass input iterator: the same step
      globalOp d (Op.push (vals.filterMap String.toNat?)) (fun s => s!"pubi q={s.q.length}")
  | ["pub", v] =>
      (match v.toNat? with
      | some v => globalOp d (Op.push [v]) (fun s => s!"pub q={s.q.length}")
      | none => (d, "bad"))
  | ["close"] => globalOp d Op.close (fun s => s!"close q={s.q.length}")
  | ["destroy"] =>
      let (d1, out) := globalOp d Op.close (fun s => s!"destroy q={s.q.length}")
      ({ d1 with pubAlive := false }, out)
  | ["kick", sid] =>
      (match sid.toNat? with
      | some n =>
          -- a live subscriber, or the stale identity of one that has left (the harness keeps the old object's address);
          -- a sid that was never used stands for a pointer nobody ever registered with
          let target := match d.find n with | some _ => n | none => 1000000
          globalOp d (Op.kick target) (fun _ => s!"kick {sid}")
      | none => (d, "bad"))
  | ["kickme", sid] =>
      (match sid.toNat?, sid.toNat?.bind d.live with
      | some n, some _ => globalOp d (Op.kick n) (fun _ => s!"kickme {sid}")
      | _, _ => (d, "bad"))
  | ["leave", sid] =>
      (match sid.toNat?, sid.toNat?.bind d.live with
      | some n, some x =>
          (match step d.s (Op.leave x.h) with
          | (s1, Res.unit) => ({ d with s := s1 }.put n { x with gone := true }, s!"leave {sid}")
          | _ => (d, "bad"))
      | _, _ => (d, "bad"))
  | _ => (d, "bad")

partial def loop (lines : Array String) (i : Nat) (st : Option D) : IO Unit := do
  if h : i < lines.size then
    let ws := words lines[i]
    match ws, st with
    | ("case" :: id :: "pub" :: mx :: mn :: _), _ =>
        IO.println s!"case {id}"
        let m := mx.toNat?.getD 0
        loop lines (i+1) (some { s := init (if m == 0 then none else some m) (mn.toNat?.getD 1) })
    | ("case" :: id :: "thr" :: _), _ =>
        -- thread stress: the harness evaluates the property itself; the expected verdict is constant
        IO.println s!"case {id}"
        IO.println "thr ok"
        loop lines (i+1) none
    | ["end"], some d =>
        let (_, out) := globalOp d Op.close (fun _ => "end")
        IO.println out
        loop lines (i+1) none
    | ["end"], none =>
        IO.println "end"
        loop lines (i+1) none
    | [], _ => loop lines (i+1) st
    | _, some d =>
        let (d', out) := doLine d ws
        IO.println out
        loop lines (i+1) (some d')
    | _, none => loop lines (i+1) st
  else return ()

def main : IO Unit := do
  let lines ← readLines (← IO.getStdin)
  loop lines 0 none
