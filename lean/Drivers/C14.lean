import CoclsModel.Proto
import CoclsModel.Aggregator
/-! Driver for C14: runs the generator-aggregator model on the harness input (grammar: harness/h_aggregator.cpp). -/
open Cocls Cocls.Proto Cocls.Agg

inductive RawAct where
  | y | a | t (e : Nat) | ar
  deriving DecidableEq, Inhabited

structure RawScript where
  pre : Array RawAct := #[]
  cyc : Array RawAct := #[]
  deriving Inhabited

def parseAct (t : String) : Option RawAct :=
  if t == "y" then some RawAct.y
  else if t == "a" then some RawAct.a
  else if t == "ar" then some RawAct.ar
  else if t.startsWith "t" then (t.drop 1).toString.toNat?.map RawAct.t
  else none

def parseActs (t : String) : Option (Array RawAct) :=
  if t == "" || t == "-" then some #[]
  else (t.splitOn ",").foldl (fun acc w => match acc, parseAct w with
    | some a, some x => some (a.push x)
    | _, _ => none) (some #[])

def parseScript (t : String) : Option RawScript :=
  match t.splitOn "*" with
  | [p] => (parseActs p).map (fun a => { pre := a })
  | [p, c] => match parseActs p, parseActs c with
      | some a, some b => some { pre := a, cyc := b }
      | _, _ => none
  | _ => none

def rawAt (r : RawScript) (p : Nat) : Option RawAct :=
  if p < r.pre.size then r.pre[p]?
  else if r.cyc.size = 0 then none
  else r.cyc[(p - r.pre.size) % r.cyc.size]?

def yieldsBefore (r : RawScript) (p : Nat) : Nat :=
  ((List.range p).filter (fun i => rawAt r i == some RawAct.y)).length

def mkScript (rs : Array RawScript) (k p : Nat) : Option Act :=
  match rs[k]? with
  | none => none
  | some r => match rawAt r p with
    | none => none
    | some RawAct.y => some (Act.yield ((k + 1) * 1000 + yieldsBefore r p))
    | some RawAct.a => some Act.await
    | some RawAct.ar => some Act.awaitRead
    | some (RawAct.t e) => some (Act.throw e)

structure Ctx where
  cfg : Cfg
  argMode : Bool
  ok : Bool

def fuelOf (c : Cfg) (s : State) : Nat := 4 * (c.n + s.q.length) + 16

def settleAll (c : Cfg) (s : State) : State := settle c s (fuelOf c s)

def pStr (c : Cfg) (s : State) : String :=
  if c.n = 0 then "p=-" else "p=" ++ ".".intercalate ((List.range c.n).map (fun k =>
    toString (s.pc k) ++ (match s.res k with | SRes.done | SRes.exc _ => "e" | _ => "")))

/-- result of the access the consumer was waiting for, judged from the state after settling -/
def resultStr (s0 s1 : State) : String :=
  if s1.out.length > s0.out.length then
    match s1.out[s0.out.length]? with
    | some (_, v) => s!"v:{v}"
    | none => "?"
  else match s1.ag with
    | Ag.done => "end"
    | Ag.failed e => s!"exc:{e}"
    | _ => "pending"

def argStr : Option Nat → String
  | some a => toString a
  | none => "dead"

/-- `a<k>=<arg>`: source `k` received an argument; `r<k>=<arg>`: source `k` fetched its argument again after an await -/
def argEvents (x : Ctx) (s0 s1 : State) : List String :=
  if !x.argMode then []
  else (List.range x.cfg.n).flatMap (fun k =>
    ((s1.got k).drop (s0.got k).length).map (fun a => s!"a{k}={a}")
    ++ ((s1.late k).drop (s0.late k).length).map (fun p => s!"r{k}={argStr p.2}"))

def sortStr (xs : List String) : List String := xs.mergeSort (fun a b => !(b < a))

def line (x : Ctx) (head : String) (s0 s1 : State) (extra : List String) : String :=
  withEvents (head ++ " " ++ pStr x.cfg s1) (sortStr (argEvents x s0 s1 ++ extra))

def gotEvent (s0 s1 : State) : List String :=
  if waiting s0 && !waiting s1 then ["got=" ++ resultStr s0 s1] else []

/-- resolve the listed sources one after the other (second thread), the aggregator running to its next park -/
def helperResolve (c : Cfg) (s : State) (ks : List Nat) : State × Bool :=
  ks.foldl (fun (acc : State × Bool) k =>
    if acc.1.st k = SSt.inflight then (settleAll c (step c acc.1 (Op.resolve k)), acc.2)
    else (acc.1, true)) (s, false)

def lowestInflight (c : Cfg) (s : State) : Option Nat :=
  (List.range c.n).find? (fun k => s.st k = SSt.inflight)

def settleEnd (c : Cfg) (s : State) : Nat → State
  | 0 => s
  | f + 1 => match lowestInflight c s with
    | none => s
    | some k => settleEnd c (settleAll c (step c s (Op.resolve k))) f

def isDestroyed (s : State) : Bool :=
  match s.ag with
  | Ag.destroyed | Ag.draining | Ag.drainWait => true
  | _ => false

def account (s : State) : String :=
  match s.ag with
  | Ag.destroyed => if s.badDestroy.isEmpty then "frames=0 guards=0" else "use-after-free"
  | Ag.aborted => "abort"
  | _ => "hang"

def validKs (c : Cfg) (ws : List String) : Option (List Nat) :=
  ws.foldr (fun w acc => match w.toNat?, acc with
    | some k, some l => if k < c.n then some (k :: l) else none
    | _, _ => none) (some [])

/-- `batch s:a …`: one consumer coroutine makes the accesses in a row.  The model runs every (re)charged source
synchronously inside the charging step (`charge`), which is what the code does whether or not the consumer itself
is a coroutine (`next_awt::subscribe` resumes the source handle directly), so a batch is just the sequence of accesses. -/
def parseAcc (w : String) : Option (Char × Nat) :=
  match w.splitOn ":" with
  | [st, a] => match st.toList, a.toNat? with
      | [ch], some n => if "nicfw".toList.contains ch then some (ch, n) else none
      | _, _ => none
  | _ => none

def doBatch (x : Ctx) (s : State) (accs : List (Char × Nat)) : State × String :=
  let c := x.cfg
  let (s', rs) := accs.foldl (fun (acc : State × List String) (ca : Char × Nat) =>
    let (st, rs) := acc
    if waiting st then (st, rs) else
    let blocking := ca.1 == 'n' || ca.1 == 'i' || ca.1 == 'w'
    match st.ag with
    | Ag.done => (st, rs ++ [if ca.1 == 'f' || ca.1 == 'w' then "nomore" else "end"])
    | Ag.failed _ => (st, rs ++ ["nomore"])
    | _ =>
      let s1 := settleAll c (step c st (Op.next ca.2))
      let r := resultStr st s1
      (s1, rs ++ [if blocking && r == "pending" then "hang" else r])) (s, [])
  (s', line x (" ".intercalate ("batch" :: rs)) s s' [])

/-- one op line: returns new state and the output line -/
def doOp (x : Ctx) (s : State) (ws : List String) : State × String :=
  let c := x.cfg
  if !x.ok || isDestroyed s then (s, "bad-op") else
  match ws with
  | "batch" :: acc1 :: accs =>
    let parsed := (acc1 :: accs).map parseAcc
    if waiting s || !parsed.all Option.isSome || (x.argMode && parsed.any (fun p => (p.map (·.1)) == some 'i'))
    then (s, "bad-op")
    else doBatch x s (parsed.filterMap id)
  | [op, a] =>
    match a.toNat? with
    | none => (s, "bad-op")
    | some a =>
      if op == "next" || op == "fnext" || op == "cnext" || (op == "inext" && !x.argMode) then
        if waiting s then (s, "bad-op") else
        match s.ag with
        | Ag.done => (s, line x (op ++ (if op == "fnext" then " nomore" else " end")) s s [])
        | Ag.failed _ => (s, line x (op ++ " nomore") s s [])
        | _ =>
          let s1 := settleAll c (step c s (Op.next a))
          let r := resultStr s s1
          (s1, line x (op ++ " " ++ (if (op == "next" || op == "inext") && r == "pending" then "hang" else r)) s s1 [])
      else if op == "res" || op == "tres" then
        if a < c.n then
          if s.st a = SSt.inflight then
            let s1 := settleAll c (step c s (Op.resolve a))
            (s1, line x op s s1 (gotEvent s s1))
          else (s, line x "bad-op" s s [])
        else (s, "bad-op")
      else if op == "bnext" then doB x s a []
      else if op == "destroy" || op == "cdestroy" then doD x s op [ws[1]!]
      else (s, "bad-op")
  | "bnext" :: a :: ks =>
    match a.toNat? with
    | some a => doB x s a ks
    | none => (s, "bad-op")
  | "destroy" :: ks => doD x s "destroy" ks
  | "cdestroy" :: ks => doD x s "cdestroy" ks
  | _ => (s, "bad-op")
where
  doB (x : Ctx) (s : State) (a : Nat) (ks : List String) : State × String :=
    let c := x.cfg
    match validKs c ks with
    | none => (s, "bad-op")
    | some ks =>
      if waiting s then (s, "bad-op") else
      match s.ag with
      | Ag.done => (s, line x "bnext end" s s [])
      | Ag.failed _ => (s, line x "bnext nomore" s s [])
      | _ =>
        let s1 := settleAll c (step c s (Op.next a))
        let (s2, bad) := helperResolve c s1 ks
        let r := resultStr s s2
        (s2, line x ("bnext " ++ (if r == "pending" then "hang" else r)) s s2 (if bad then ["bad-helper"] else []))
  doD (x : Ctx) (s : State) (op : String) (ks : List String) : State × String :=
    let c := x.cfg
    match validKs c ks with
    | none => (s, "bad-op")
    | some ks =>
      if waiting s then (s, "bad-op") else
      let s1 := settleAll c (step c s (Op.destroy (op == "cdestroy")))
      let (s2, bad) := helperResolve c s1 ks
      (s2, line x (op ++ " " ++ account s2) s s2 (if bad then ["bad-helper"] else []))

def doEnd (x : Ctx) (s : State) : String :=
  let c := x.cfg
  if !x.ok || isDestroyed s then "end" else
  let s1 := settleEnd c s 1000
  let ev := gotEvent s s1
  if waiting s1 then line x "end" s s1 (ev ++ ["unsettled"])
  else
    let s2 := settleAll c (step c s1 (Op.destroy false))
    line x ("end " ++ account s2) s s2 ev

partial def loop (lines : Array String) (i : Nat) (st : Option (Ctx × State)) : IO Unit := do
  if h : i < lines.size then
    let ws := words lines[i]
    match ws, st with
    | ("case" :: id :: "agg" :: mode :: n :: scripts), _ =>
        IO.println s!"case {id}"
        let n := n.toNat?.getD 0
        let rs := scripts.map parseScript
        let ok := rs.length == n && rs.all Option.isSome
        let arr : Array RawScript := (rs.map (fun r => r.getD {})).toArray
        let cfg : Cfg := { n := n, script := mkScript arr }
        loop lines (i+1) (some ({ cfg := cfg, argMode := mode == "a" || mode == "r", ok := ok }, Agg.init))
    | ["end"], some (x, s) =>
        IO.println (doEnd x s)
        loop lines (i+1) none
    | [], _ => loop lines (i+1) st
    | _, some (x, s) =>
        let (s', out) := doOp x s ws
        IO.println out
        loop lines (i+1) (some (x, s'))
    | _, none => loop lines (i+1) st
  else return ()

def main : IO Unit := do
  let lines ← readLines (← IO.getStdin)
  loop lines 0 none
