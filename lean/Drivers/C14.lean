import CoclsModel.Proto
import CoclsModel.AggregatorValues
/-! Driver for C14: runs the generator-aggregator model (`Aggregator.lean` under the value / result layer
`AggregatorValues.lean`) on the harness input (grammar: harness/h_aggregator.cpp). -/
open Cocls Cocls.Proto Cocls.Agg
open Cocls.AggV (Style Rep)

abbrev VState := Cocls.AggV.State
abbrev VCfg := Cocls.AggV.Cfg
abbrev VOp := Cocls.AggV.Op

inductive RawAct where
  | y | a | t (e : Nat) | ar | yl
  deriving DecidableEq, Inhabited

structure RawScript where
  pre : Array RawAct := #[]
  cyc : Array RawAct := #[]
  deriving Inhabited

def parseAct (t : String) : Option RawAct :=
  if t == "y" then some RawAct.y
  else if t == "yl" then some RawAct.yl
  else if t == "a" then some RawAct.a
  else if t == "ar" then some RawAct.ar
  else if t.startsWith "t" then (t.drop 1).toString.toNat?.map RawAct.t
  else none

def parseActs (t : String) : Option (Array RawAct) :=
  if t == "" || t == "-" then some #[]
  else (t.splitOn ",").foldl (fun acc w => match acc, parseAct w with
    | some a, some x => some (a.push x)
    | _, _ => none) (some #[])

def parseScript (t : String) : Option RawScript :=
  match t.splitOn "*" with
  | [p] => (parseActs p).map (fun a => { pre := a })
  | [p, c] => match parseActs p, parseActs c with
      | some a, some b => some { pre := a, cyc := b }
      | _, _ => none
  | _ => none

def rawAt (r : RawScript) (p : Nat) : Option RawAct :=
  if p < r.pre.size then r.pre[p]?
  else if r.cyc.size = 0 then none
  else r.cyc[(p - r.pre.size) % r.cyc.size]?

def yieldsBefore (r : RawScript) (p : Nat) : Nat :=
  ((List.range p).filter (fun i => rawAt r i == some RawAct.y || rawAt r i == some RawAct.yl)).length

def mkScript (rs : Array RawScript) (k p : Nat) : Option Act :=
  match rs[k]? with
  | none => none
  | some r => match rawAt r p with
    | none => none
    | some RawAct.y => some (Act.yield ((k + 1) * 1000 + yieldsBefore r p))
    | some RawAct.yl => some (Act.yield ((k + 1) * 1000 + yieldsBefore r p))
    | some RawAct.a => some Act.await
    | some RawAct.ar => some Act.awaitRead
    | some (RawAct.t e) => some (Act.throw e)

def mkLval (rs : Array RawScript) (k p : Nat) : Bool :=
  match rs[k]? with
  | none => false
  | some r => rawAt r p == some RawAct.yl

structure Ctx where
  vcfg : VCfg
  argMode : Bool
  ok : Bool

def Ctx.cfg (x : Ctx) : Cfg := x.vcfg.base

def fuelOf (c : Cfg) (s : State) : Nat := 4 * (c.n + s.q.length) + 16

/-- run the aggregator until it parks -/
def settleV (c : VCfg) (s : VState) : Nat → VState
  | 0 => s
  | fuel + 1 => if running s.base then settleV c (Cocls.AggV.step c s Cocls.AggV.Op.agg) fuel else s

def settleAll (c : VCfg) (s : VState) : VState := settleV c s (fuelOf c.base s.base)

def pStr (c : Cfg) (s : State) : String :=
  if c.n = 0 then "p=-" else "p=" ++ ".".intercalate ((List.range c.n).map (fun k =>
    toString (s.pc k) ++ (match s.res k with | SRes.done | SRes.exc _ => "e" | _ => "")))

def objStr : Option Nat → String
  | some a => toString a
  | none => "moved"

def repStr : Rep → String
  | Rep.val v => "v:" ++ objStr v
  | Rep.ended => "end"
  | Rep.exc e => s!"exc:{e}"

/-- result of the access the consumer was waiting for: what the consumer learned, in its access style (`obs`) -/
def resultStr (s0 s1 : VState) : String :=
  match s1.obs[s0.obs.length]? with
  | some (_, r) => repStr r
  | none => "pending"

def argStr : Option Nat → String
  | some a => toString a
  | none => "dead"

/-- `a<k>=<arg>`: source `k` received an argument; `r<k>=<arg>`: source `k` fetched its argument again after an await;
`k<k>=<obj>`: source `k`, back from `co_yield x`, looked at the lvalue `x` it had yielded -/
def argEvents (x : Ctx) (s0 s1 : VState) : List String :=
  (List.range x.cfg.n).flatMap (fun k =>
    (if !x.argMode then [] else
      ((s1.base.got k).drop (s0.base.got k).length).map (fun a => s!"a{k}={a}")
      ++ ((s1.base.late k).drop (s0.base.late k).length).map (fun p => s!"r{k}={argStr p.2}"))
    ++ ((s1.kept k).drop (s0.kept k).length).map (fun p => s!"k{k}={objStr p.2}"))

/-- after the destruction the owner of the yielded lvalues looks at those the parked sources never got back to -/
def finalKept (x : Ctx) (s : VState) : List String :=
  match s.base.ag with
  | Ag.destroyed =>
    (List.range x.cfg.n).flatMap (fun k =>
      match Cocls.AggV.yieldedLval x.vcfg s.base k, s.base.res k with
      | some _, SRes.val _ => [s!"k{k}={objStr (s.slot k)}"]
      | _, _ => [])
  | _ => []

def sortStr (xs : List String) : List String := xs.mergeSort (fun a b => !(b < a))

def line (x : Ctx) (head : String) (s0 s1 : VState) (extra : List String) : String :=
  withEvents (head ++ " " ++ pStr x.cfg s1.base) (sortStr (argEvents x s0 s1 ++ extra))

def gotEvent (s0 s1 : VState) : List String :=
  if waiting s0.base && !waiting s1.base then ["got=" ++ resultStr s0 s1] else []

/-- resolve the listed sources one after the other (second thread), the aggregator running to its next park -/
def helperResolve (c : VCfg) (s : VState) (ks : List Nat) : VState × Bool :=
  ks.foldl (fun (acc : VState × Bool) k =>
    if acc.1.base.st k = SSt.inflight then (settleAll c (Cocls.AggV.step c acc.1 (Cocls.AggV.Op.resolve k)), acc.2)
    else (acc.1, true)) (s, false)

def lowestInflight (c : Cfg) (s : State) : Option Nat :=
  (List.range c.n).find? (fun k => s.st k = SSt.inflight)

def settleEnd (c : VCfg) (s : VState) : Nat → VState
  | 0 => s
  | f + 1 => match lowestInflight c.base s.base with
    | none => s
    | some k => settleEnd c (settleAll c (Cocls.AggV.step c s (Cocls.AggV.Op.resolve k))) f

def isDestroyed (s : State) : Bool :=
  match s.ag with
  | Ag.destroyed | Ag.draining | Ag.drainWait => true
  | _ => false

def account (s : State) : String :=
  match s.ag with
  | Ag.destroyed => if s.badDestroy.isEmpty then "frames=0 guards=0" else "use-after-free"
  | Ag.aborted => "abort"
  | _ => "hang"

def validKs (c : Cfg) (ws : List String) : Option (List Nat) :=
  ws.foldr (fun w acc => match w.toNat?, acc with
    | some k, some l => if k < c.n then some (k :: l) else none
    | _, _ => none) (some [])

/-- access styles of the harness grammar: n next()/value(), i iterator, c co_await next(), and through the future of
`gen()`: f co_await has_value(), w operator bool, x operator!, d `*val`, q `co_await val`, j sync()+value(); the capital
letter = the same reading on a future that is re-used with `result_of` / `operator<<` -/
def styleOf (ch : Char) : Option Style :=
  match ch.toLower with
  | 'n' => some Style.next
  | 'i' => some Style.iter
  | 'c' => some Style.awaitNext
  | 'f' => some Style.futHas
  | 'w' => some Style.futBool
  | 'x' => some Style.futNot
  | 'd' => some Style.futDeref
  | 'q' => some Style.futAwait
  | 'j' => some Style.futValue
  | _ => none

def styleOk (ch : Char) : Bool := "nicfwxdqjFWXDQJ".toList.contains ch

/-- the style blocks the thread when the result is not there yet -/
def blockingStyle (ch : Char) : Bool := "niwxdjWXDJ".toList.contains ch

/-- an access made after the end: the reference styles find `done()`; `gen()` throws `no_more_values_exception`; after
an exception `next()` throws it as well -/
def afterEnd (s : State) (ch : Char) : Option String :=
  match s.ag with
  | Ag.done => some (match styleOf ch with
      | some st => if st.isFut then "nomore" else "end"
      | none => "end")
  | Ag.failed _ => some "nomore"
  | _ => none

/-- `batch s:a …`: one consumer coroutine makes the accesses in a row.  The model runs every (re)charged source
synchronously inside the charging step (`charge`), which is what the code does whether or not the consumer itself
is a coroutine (`next_awt::subscribe` resumes the source handle directly), so a batch is just the sequence of accesses. -/
def parseAcc (w : String) : Option (Char × Nat) :=
  match w.splitOn ":" with
  | [st, a] => match st.toList, a.toNat? with
      | [ch], some n => if styleOk ch then some (ch, n) else none
      | _, _ => none
  | _ => none

def doAccess (x : Ctx) (st : VState) (ch : Char) (a : Nat) (poll : Bool := false) : VState × String :=
  match afterEnd st.base ch with
  | some r => (st, r)
  | none =>
    let s1 := settleAll x.vcfg (Cocls.AggV.step x.vcfg st (Cocls.AggV.Op.next a ((styleOf ch).getD Style.next)))
    let r := resultStr st s1
    (s1, if blockingStyle ch && !poll && r == "pending" then "hang" else r)

def doBatch (x : Ctx) (s : VState) (accs : List (Char × Nat)) : VState × String :=
  let (s', rs) := accs.foldl (fun (acc : VState × List String) (ca : Char × Nat) =>
    let (st, rs) := acc
    if waiting st.base then (st, rs) else
    let (s1, r) := doAccess x st ca.1 ca.2
    (s1, rs ++ [r])) (s, [])
  (s', line x (" ".intercalate ("batch" :: rs)) s s' [])

/-- one op line: returns new state and the output line -/
def doOp (x : Ctx) (s : VState) (ws : List String) : VState × String :=
  let c := x.cfg
  if !x.ok || isDestroyed s.base then (s, "bad-op") else
  match ws with
  | "batch" :: acc1 :: accs =>
    let parsed := (acc1 :: accs).map parseAcc
    if waiting s.base || !parsed.all Option.isSome || (x.argMode && parsed.any (fun p => (p.map (·.1)) == some 'i'))
    then (s, "bad-op")
    else doBatch x s (parsed.filterMap id)
  | ["pnext", st, a] =>
    match st.toList, a.toNat? with
    | [ch], some a =>
      if waiting s.base || !blockingStyle ch || (x.argMode && ch == 'i') then (s, "bad-op") else
      let (s1, r) := doAccess x s ch a
      (s1, line x ("pnext " ++ r) s s1 [])
    | _, _ => (s, "bad-op")
  | [op, a] =>
    match a.toNat? with
    | none => (s, "bad-op")
    | some a =>
      if op == "next" || op == "fnext" || op == "cnext" || (op == "inext" && !x.argMode) then
        if waiting s.base then (s, "bad-op") else
        let ch := if op == "next" then 'n' else if op == "inext" then 'i' else if op == "cnext" then 'c' else 'j'
        -- `fnext`: the future of `gen()` is polled (`ready()`, then `value()`), never waited for
        let (s1, r) := doAccess x s ch a (op == "fnext")
        (s1, line x (op ++ " " ++ r) s s1 [])
      else if op == "res" || op == "tres" then
        if a < c.n then
          if s.base.st a = SSt.inflight then
            let s1 := settleAll x.vcfg (Cocls.AggV.step x.vcfg s (Cocls.AggV.Op.resolve a))
            (s1, line x op s s1 (gotEvent s s1))
          else (s, line x "bad-op" s s [])
        else (s, "bad-op")
      else if op == "bnext" then doB x s a []
      else if op == "destroy" || op == "cdestroy" then doD x s op [ws[1]!]
      else (s, "bad-op")
  | "bnext" :: a :: ks =>
    match a.toNat? with
    | some a => doB x s a ks
    | none => (s, "bad-op")
  | "destroy" :: ks => doD x s "destroy" ks
  | "cdestroy" :: ks => doD x s "cdestroy" ks
  | _ => (s, "bad-op")
where
  doB (x : Ctx) (s : VState) (a : Nat) (ks : List String) : VState × String :=
    let c := x.cfg
    match validKs c ks with
    | none => (s, "bad-op")
    | some ks =>
      if waiting s.base then (s, "bad-op") else
      match s.base.ag with
      | Ag.done => (s, line x "bnext end" s s [])
      | Ag.failed _ => (s, line x "bnext nomore" s s [])
      | _ =>
        let s1 := settleAll x.vcfg (Cocls.AggV.step x.vcfg s (Cocls.AggV.Op.next a Style.next))
        let (s2, bad) := helperResolve x.vcfg s1 ks
        let r := resultStr s s2
        (s2, line x ("bnext " ++ (if r == "pending" then "hang" else r)) s s2 (if bad then ["bad-helper"] else []))
  doD (x : Ctx) (s : VState) (op : String) (ks : List String) : VState × String :=
    let c := x.cfg
    match validKs c ks with
    | none => (s, "bad-op")
    | some ks =>
      if waiting s.base then (s, "bad-op") else
      let s1 := settleAll x.vcfg (Cocls.AggV.step x.vcfg s (Cocls.AggV.Op.destroy (op == "cdestroy")))
      let (s2, bad) := helperResolve x.vcfg s1 ks
      (s2, line x (op ++ " " ++ account s2.base) s s2 ((if bad then ["bad-helper"] else []) ++ finalKept x s2))

def doEnd (x : Ctx) (s : VState) : String :=
  if !x.ok || isDestroyed s.base then "end" else
  let s1 := settleEnd x.vcfg s 1000
  let ev := gotEvent s s1
  if waiting s1.base then line x "end" s s1 (ev ++ ["unsettled"])
  else
    let s2 := settleAll x.vcfg (Cocls.AggV.step x.vcfg s1 (Cocls.AggV.Op.destroy false))
    line x ("end " ++ account s2.base) s s2 (ev ++ finalKept x s2)

partial def loop (lines : Array String) (i : Nat) (st : Option (Ctx × VState)) : IO Unit := do
  if h : i < lines.size then
    let ws := words lines[i]
    match ws, st with
    | ("case" :: id :: "agg" :: mode :: n :: scripts), _ =>
        IO.println s!"case {id}"
        let n := n.toNat?.getD 0
        let rs := scripts.map parseScript
        let ok := rs.length == n && rs.all Option.isSome
        let arr : Array RawScript := (rs.map (fun r => r.getD {})).toArray
        let cfg : Cfg := { n := n, script := mkScript arr }
        let vcfg : VCfg := { base := cfg, lval := mkLval arr }
        loop lines (i+1) (some ({ vcfg := vcfg, argMode := mode == "a" || mode == "r" || mode == "t", ok := ok },
                                Cocls.AggV.init))
    | ["end"], some (x, s) =>
        IO.println (doEnd x s)
        loop lines (i+1) none
    | [], _ => loop lines (i+1) st
    | _, some (x, s) =>
        let (s', out) := doOp x s ws
        IO.println out
        loop lines (i+1) (some (x, s'))
    | _, none => loop lines (i+1) st
  else return ()

def main : IO Unit := do
  let lines ← readLines (← IO.getStdin)
  loop lines 0 none
