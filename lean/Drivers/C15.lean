import CoclsModel.Proto
import CoclsModel.Signal
/-! Driver for C15: runs the `signal` model on the harness input (same grammar as harness/h_signal.cpp).

The driver adds only executor bookkeeping on top of the model: which released listeners sit in which *held*
suspend point (`emit … hold` / `flush`), which are queued in the emitting coroutine's ready queue (`burst`), and
the table of handle slots.  Every state change goes through `Cocls.Signal.step` (collector calls and handle destruction through the loop forms
`stepEmitLoop` / `stepDropLoop`). -/
open Cocls Cocls.Proto Cocls.Signal

structure D where
  s : State := init
  held : List (List Nat) := []
  hs : List Bool := [true]
  hook : Bool := false      -- `hook` case: the signal does not exist until the first `hlisten`
  hooked : Bool := false    -- listener 0 is the hook_up listener: its emitter lives in its own frame (not assignable)
  obj : Bool := false       -- `obj` case: the value type's construction can throw (x-flavours); int / void: the x is ignored

def outStr : Out → String
  | Out.val v => s!"v{v}"
  | Out.canceled => "canceled"
  | Out.free => "free"
  | Out.dead => "vdead"

/-- events = what each listener observed between two model states, by listener id -/
def events (s0 s1 : State) : List String :=
  (List.range s1.next).flatMap fun l =>
    ((s1.got l).drop (if l < s0.next then (s0.got l).length else 0)).map fun o =>
      (if s1.isCb l then "C" else "L") ++ toString l ++ ":" ++ outStr o

/-- the driver executes the walks awaiter by awaiter, as the code does (`stepEmitLoop` / `stepDropLoop`); they equal the
closed forms the proofs are about on every reachable state (`c15_model_is_the_loop`) -/
def stepX (s : State) (op : Op) : State × Res :=
  match op with
  | Op.emit r v => stepEmitLoop s r v
  | Op.dropHandle => stepDropLoop s
  | _ => step s op

def st (s : State) (op : Op) : State := (stepX s op).1

def resumeAll (s : State) (ids : List Nat) : State := ids.foldl (fun s l => st s (Op.resume l)) s

/-- the collector call of one flavour token: `val|rv|conv` by value, `lv` by reference; with a trailing `x` in an `obj` case
the value's construction throws (`valx|rvx|convx`) — except `lvx`, the reference overload, which constructs nothing -/
def emitOp (obj : Bool) (fl : String) (v : Nat) : Op :=
  if fl == "lv" || fl == "lvx" then Op.emit true v
  else if obj && fl.endsWith "x" then Op.emitFail
  else Op.emit false v

def parseScript (w : String) : List Act :=
  w.toList.filterMap fun c => if c == 'r' then some Act.re else if c == 'g' then some Act.gate
    else if c == 'x' then some Act.exit else none

/-- ids released by the last step (the model appends to `rel`) -/
def newRel (s0 s1 : State) : List Nat := s1.rel.drop s0.rel.length

def dropAll (s : State) : Nat → State
  | 0 => s
  | n + 1 => if s.handles = 0 then s else dropAll (st s Op.dropHandle) n

/-- one `burst` token inside the emitting coroutine; returns (state, queued, text) -/
def burstTok (obj : Bool) (s : State) (queued : List Nat) (tok : String) : State × List Nat × String :=
  if tok == "X" then
    let s1 := dropAll s (s.handles + 1)
    (s1, queued ++ newRel s s1, "x")
  else
    match tok.splitOn ":" with
    | [m, fl, v] =>
      if s.handles = 0 then (s, queued, "-")
      else if emitOp obj fl 0 == Op.emitFail then (st s Op.emitFail, queued, "!")
      else
        let s1 := st s (emitOp obj fl (v.toNat?.getD 0))
        let nr := newRel s s1
        let q := queued ++ nr
        -- `co_await sp` suspends the emitting coroutine only when the suspend point is not empty
        if m == "a" && !nr.isEmpty then (resumeAll s1 q, [], toString nr.length)
        else (s1, q, toString nr.length)
    | _ => (s, queued, "?")

def doLine (d : D) (ws : List String) : D × String :=
  let s := d.s
  if d.hook then
    -- hook_up(): create the state, subscribe, then hand out the collector (handle 0) = `listen` on the initial state
    match ws with
    | kind :: sc :: toks =>
        if kind == "hlisten" || kind == "hlisten0" then
          -- subscribe FIRST, then the registration function runs: its collector calls (suspend points discarded inside
          -- the listener's own await_suspend = coroutine mode: only queued), then it keeps or drops the collector; the
          -- queued listener runs when await_suspend has returned
          let (s1, r) := stepX s (Op.listen (parseScript sc))
          let keep := (toks.foldl (fun k t => if t == "keep" then true else if t == "drop" then false else k) (kind == "hlisten"))
          let (s2, q, txt) := toks.foldl (fun (acc : State × List Nat × List String) tok =>
              match tok.splitOn ":" with
              | [_, fl, v] =>
                  if emitOp d.obj fl 0 == Op.emitFail then (st acc.1 Op.emitFail, acc.2.1, acc.2.2 ++ ["!"]) else
                  let s1 := st acc.1 (emitOp d.obj fl (v.toNat?.getD 0))
                  let nr := newRel acc.1 s1
                  (s1, acc.2.1 ++ nr, acc.2.2 ++ [toString nr.length])
              | _ => acc) (s1, [], [])
          let s3 := if keep then s2 else st s2 Op.dropHandle
          let q3 := if keep then q else q ++ newRel s2 s3
          ({ d with s := resumeAll s3 q3, hook := false, hooked := true, hs := [keep] },
            match r with
            | Res.id l => s!"{kind} L{l}" ++ (if txt.isEmpty then "" else " rel=" ++ joinWith "," txt)
            | _ => "bad-op")
        else (d, "bad-op")
    | _ => (d, "bad-op")
  else
  match ws with
  | ["listen", sc] =>
      let (s1, r) := stepX s (Op.listen (parseScript sc))
      ({ d with s := s1 }, match r with | Res.id l => s!"listen L{l}" | _ => "bad-op")
  | ["alisten", sc] =>
      let (s1, r) := stepX s (Op.listen (parseScript sc))
      ({ d with s := s1 }, match r with | Res.id l => s!"alisten L{l}" | _ => "bad-op")
  | ["connect0", n] =>
      let (s1, r) := stepX s (Op.connect0 (n.toNat?.getD 0))
      ({ d with s := s1 }, match r with | Res.id l => s!"connect0 C{l}" | _ => "bad-op")
  | "assign" :: l :: src :: rest =>
      -- the harness owns the emitters of the plain coroutine listeners only
      let hasEm := fun (k : Nat) => k < s.next && !s.isCb k && !(d.hooked && k == 0)
      match l.toNat? with
      | none => (d, "bad-op")
      | some l =>
        if !hasEm l then (d, "bad-op") else
        let b : Option Bool :=
          if src == "live" then some true
          else if src == "none" || src == "moved" then some false
          else if src == "self" then some (s.conn l)
          else if src == "copy" then
            match (rest.headD "").toNat? with
            | some k => if hasEm k then some (s.conn k) else none
            | none => none
          else none
        match b with
        | none => (d, "bad-op")
        | some b =>
          let (s1, r) := stepX s (Op.assign l b)
          match r with
          | Res.unit => ({ d with s := s1 }, "assign")
          | _ => (d, "bad-op")
  | ["listen0", sc] =>
      let (s1, r) := stepX s (Op.listen0 (parseScript sc))
      ({ d with s := s1 }, match r with | Res.id l => s!"listen0 L{l}" | _ => "bad-op")
  | "tlisten" :: scs =>
      if scs.isEmpty then (d, "bad-op") else
      let s1 := scs.foldl (fun s sc => st s (Op.listen (parseScript sc))) s
      ({ d with s := s1 }, s!"tlisten L{s.next}..L{s1.next - 1}")
  | ["connect", n] =>
      let (s1, r) := stepX s (Op.connect (n.toNat?.getD 0))
      ({ d with s := s1 }, match r with | Res.id l => s!"connect C{l}" | _ => "bad-op")
  | ["connectl", n] =>
      -- the callable is an lvalue which the caller destroys right after connect() returned: the connection owns a copy
      let (s1, r) := stepX s (Op.connectL (n.toNat?.getD 0))
      ({ d with s := s1 }, match r with | Res.id l => s!"connectl C{l}" | _ => "bad-op")
  | "emit" :: fl :: v :: rest =>
      let (s1, r) := stepX s (emitOp d.obj fl (v.toNat?.getD 0))
      match r with
      | Res.num n =>
          if rest == ["hold"] then ({ d with s := s1, held := d.held ++ [newRel s s1] }, s!"emit rel={n}")
          else ({ d with s := resumeAll s1 (newRel s s1) }, s!"emit rel={n}")
      | Res.threw => ({ d with s := s1 }, "emit threw")     -- no suspend point was returned: nothing to hold
      | _ => (d, "bad-op")
  | ["flush"] =>
      match d.held with
      | [] => (d, "flush none")
      | ids :: rest => ({ d with s := resumeAll s ids, held := rest }, s!"flush {ids.length}")
  | "burst" :: toks =>
      if toks.isEmpty then (d, "bad-op") else
      let (s1, q, txt) := toks.foldl (fun (acc : State × List Nat × List String) tok =>
          let (s1, q, t) := burstTok d.obj acc.1 acc.2.1 tok
          (s1, q, acc.2.2 ++ [t])) (s, [], [])
      let hs := if s1.handles = 0 then d.hs.map (fun _ => false) else d.hs
      ({ d with s := resumeAll s1 q, hs := hs }, "burst rel=" ++ joinWith "," txt)
  | [w] =>
      if w == "newcol" || w == "newsig" then
        let (s1, r) := stepX s Op.addHandle
        match r with
        | Res.unit => ({ d with s := s1, hs := d.hs ++ [true] }, s!"handle H{d.hs.length}")
        | _ => (d, "bad-op")
      else (d, "bad-op")
  | ["drop", k] =>
      match k.toNat? with
      | some k =>
          if d.hs.getD k false then
            let (s1, r) := stepX s Op.dropHandle
            let s2 := resumeAll s1 (newRel s s1)     -- `~state` discards its suspend point: normal thread => flushed now
            ({ d with s := s2, hs := d.hs.set k false },
              match r with | Res.last b => "drop last=" ++ boolStr b | _ => "bad-op")
          else (d, "bad-op")
      | none => (d, "bad-op")
  | ["wake", l] =>
      let (s1, r) := stepX s (Op.wake (l.toNat?.getD 0))
      match r with
      | Res.unit => ({ d with s := s1 }, "wake")
      | _ => (d, "bad-op")
  | _ => (d, "bad-op")

def mergeSortNat (xs : List Nat) : List Nat := xs.mergeSort (fun a b => a ≤ b)

def doEnd (d : D) : D × String :=
  let s1 := d.held.foldl resumeAll d.s
  let s2 := dropAll s1 (s1.handles + 1)
  let s3 := resumeAll s2 (newRel s1 s2)
  let s4 := (mergeSortNat s3.gated).foldl (fun s l => st s (Op.wake l)) s3
  let live := (corosOf s4).length + s4.rel.length + s4.gated.length
  let cbs := (cbsOf s4).length
  ({ d with s := s4, held := [] }, s!"end live={live} cbs={cbs}")

partial def loop (lines : Array String) (i : Nat) (st : Option D) : IO Unit := do
  if h : i < lines.size then
    let ws := words lines[i]
    match ws, st with
    | ("case" :: id :: rest), _ =>
        IO.println s!"case {id}"
        loop lines (i+1) (some { hook := rest.getD 2 "" == "hook", obj := rest.getD 1 "" == "obj" })
    | ["end"], some d =>
        let (d1, head) := doEnd d
        IO.println (withEvents head (events d.s d1.s))
        loop lines (i+1) none
    | [], _ => loop lines (i+1) st
    | _, some d =>
        let (d1, head) := doLine d ws
        IO.println (withEvents head (events d.s d1.s))
        loop lines (i+1) (some d1)
    | _, none => loop lines (i+1) st
  else return ()

def main : IO Unit := do
  let lines ← readLines (← IO.getStdin)
  loop lines 0 none
