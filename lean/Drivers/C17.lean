import CoclsModel.Proto
import CoclsModel.SharedFuture
import CoclsModel.SharedFutureApi
/-! Driver for C17: runs the micro-step shared_future model on the scenarios of harness/h_shared_future.cpp. -/
open Cocls Cocls.Proto Cocls.SharedFuture

def seenStr : Seen → String
  | Seen.null => "null"
  | Seen.node _ => "ptr"
  | Seen.ready => "ready"

def obsStr (isVoid : Bool) : Obs → String
  | Obs.val v => if isVoid then "v" else s!"v:{v}"
  | Obs.exc c => s!"exc:{c}"
  | Obs.canceled => "canceled"
  | Obs.notready => "notready"

def wkStr : WK → String
  | WK.coro => "coro"
  | WK.sync => "sync"
  | WK.cb => "cb"
  | WK.peek => "peek"

def evStr (isVoid : Bool) : Ev → String
  | Ev.opLoadSlot t s => s!"s {t} load slot {seenStr s}"
  | Ev.opCas t ok s => s!"s {t} cas{if ok then "+" else "-"} slot {seenStr s}>ptr"
  | Ev.opXchgSlot t s => s!"s {t} xchg slot {seenStr s}>ready"
  | Ev.opXchgInit t => s!"s {t} xchg slot inst>null"
  | Ev.opXchgTmp t => s!"s {t} xchg tmp ptr>null"
  | Ev.opLoadTmp t => s!"s {t} load tmp null"
  | Ev.opXchgOwner t => s!"s {t} xchg owner ptr>null"
  | Ev.opLoadOwner t => s!"s {t} load owner ptr"
  | Ev.opStoreFlag t x => s!"s {t} store flag{x} 1"
  | Ev.waitBlock t => s!"s {t} wait-block flag{t}"
  | Ev.waitPass t => s!"s {t} wait-pass flag{t}"
  | Ev.gateBlock t p => s!"s {t} wait-block {if p then "promise" else "ctor"}"
  | Ev.fin t => s!"s {t} fin"
  | Ev.obs x k o => s!"obs t{x} {wkStr k} {obsStr isVoid o}"
  | Ev.ret t => s!"ret t{t} 1"
  | Ev.freed t => s!"freed t{t}"
  | Ev.dflt => "default ready=0 value=notready"
  | Ev.crash t => s!"crash t{t}"

def parseAct : String → Option Act
  | "copy" => some Act.copy
  | "drop" => some Act.drop
  | "peek" => some Act.peek
  | "coro" => some (Act.await WK.coro)
  | "sync" => some (Act.await WK.sync)
  -- other spellings of the blocking observer / the poll: same atomic operations, same model step
  | "fwait" => some (Act.await WK.sync)
  | "ssync" => some (Act.await WK.sync)
  | "fsync" => some (Act.await WK.sync)
  | "join" => some (Act.await WK.sync)
  | "conv" => some (Act.await WK.sync)
  | "cpeek" => some Act.peek
  | "cb" => some (Act.await WK.cb)
  | _ => none

def parseMode (m : String) (arg : Nat) : Mode :=
  match m with
  | "pf" => Mode.pf
  | "ff" => Mode.ff
  | "gp" => Mode.gp
  | "ls" => Mode.ls
  | "ip" => Mode.ip
  | "sv" => Mode.sv arg
  | _ => Mode.se arg

def parseRK (ws : List String) : Option RK :=
  match ws with
  | ["value", v] => v.toNat?.map RK.value
  | ["exc", c] => c.toNat?.map RK.exc
  | "value" :: v :: _ => v.toNat?.map RK.value
  | "exc" :: c :: _ => c.toNat?.map RK.exc
  | "value" :: _ => none
  | "exc" :: _ => none
  | "drop" :: _ => some RK.drop
  | _ :: _ => some RK.dtor
  | [] => none

/-- the baton scheduler's choice: the named thread if enabled, else the next enabled one cyclically -/
def pick (n : Nat) (s : State) (want : Option Nat) : Option Nat :=
  match want with
  | some w => ((List.range n).map (fun k => (w + k) % n)).find? (enabled s)
  | none => (List.range n).find? (enabled s)

def allDone (n : Nat) (s : State) : Bool := (List.range n).all fun i => s.pc i == Pc.done

partial def runSched (c : Cfg) (isVoid : Bool) (s : State) (sched : List Nat) (acc : Array String) (fuel : Nat) :
    State × Array String × Bool :=
  if fuel = 0 then (s, acc, true) else
  if allDone c.n s then (s, acc, false) else
  let (want, rest) := match sched with
    | w :: r => (some (w % c.n), r)
    | [] => (none, [])
  match pick c.n s want with
  | none => (s, acc, true)
  | some t =>
    let (s', evs) := astep c s t
    runSched c isVoid s' rest (acc ++ (evs.map (evStr isVoid)).toArray) (fuel - 1)

def runCase (hdr : List String) (body : List (List String)) : List String := Id.run do
  let tyName := hdr[3]?.getD "int"
  let isVoid := tyName == "void"
  let modeName := hdr[4]?.getD "pf"
  let arg := (hdr[5]?.bind String.toNat?).getD 0
  let mode := parseMode modeName arg
  let threads := body.filter (fun w => w.head? == some "t" && w.length ≥ 2)
  let sched := (body.filter (fun w => w.head? == some "sched")).flatMap (fun w => (w.drop 1).filterMap String.toNat?)
  -- the same well-formedness test as the harness
  let badLine := threads.any fun w =>
    match w with
    | _ :: "r" :: rest => (parseRK rest).isNone
    | _ :: "c" :: _ => false
    | _ :: "h" :: _ => false
    | _ => true
  if badLine then return ["malformed", "end"]
  let n := threads.length
  let nres := (threads.filter (fun w => w[1]? == some "r")).length
  let firstC := (threads.head?.bind (fun w => w[1]?)) == some "c"
  let otherC := (threads.drop 1).any (fun w => w[1]? == some "c")
  if n == 0 || !firstC || otherC || nres != (if mode.hasPromise then 1 else 0) then return ["malformed", "end"]
  let tarr := threads.toArray
  let rtid := (List.range n).find? (fun i => (tarr[i]?.bind (fun w => w[1]?)) == some "r")
  let rk := match rtid with
    | some i => (parseRK ((tarr[i]?.getD []).drop 2)).getD RK.drop
    | none => RK.drop
  let progs := tarr.map (fun w => (w.drop 2).filterMap parseAct)
  let cfg : Cfg := { n := n, mode := mode, prog := fun i => progs[i]?.getD [], rtid := rtid.getD 0, rk := rk }
  let mut pre : Array String := #[]
  match mode with
  | Mode.sv v =>
      pre := pre.push (if isVoid then "factory ready=1 v" else s!"factory ready=1 v:{v} same=1")
      pre := pre.push "factory-balance v=0 e=0"
  | Mode.se e =>
      pre := pre.push s!"factory ready=1 exc:{e}"
      pre := pre.push "factory-balance v=0 e=0"
  | _ => pure ()
  let (s1, out, dead) := runSched cfg isVoid (init cfg) sched pre 100000
  if dead then return (out.toList ++ ["deadlock", "end"])
  let lines := out.push s!"final live={if s1.freed = 0 then 1 else 0} frees={s1.freed} vbal=0 ebal=0"
  return (lines.toList ++ ["end"])

/-! ## case kind `api`: the sequential API-level model (`SharedFutureApi.lean`, harness/h_shared_future_api.cpp) -/
namespace Api
open Cocls.SharedFutureApi

def obsS : SharedFutureApi.Obs → String
  | .val v => s!"v:{v}"
  | .moved => "moved"
  | .exc c => s!"exc:{c}"
  | .canceled => "canceled"
  | .notready => "notready"

def kS : Option Nat → String
  | some k => s!"s{k}"
  | none => "s-"

def outS : Out → String
  | .h i => s!"h{i}"
  | .hs i k => s!"h{i} s{k}"
  | .ok => "ok"
  | .gone => "gone"
  | .pre => "pre"
  | .ret => "ret 1"
  | .b k b => s!"{kS k} {boolStr b}"
  | .o k o => s!"{kS k} {obsS o}"
  | .j k o => match o with
      | .val _ => s!"s{k} returned"
      | .moved => s!"s{k} returned"
      | o => s!"s{k} {obsS o}"
  | .done k => s!"s{k} synced"
  | .sub k w => s!"s{k} w{w}"
  | .took k o => s!"{kS k} took {obsS o}"

def evS : SharedFutureApi.Ev → String
  | .obs w k o => s!"obs w{w} {match k with | .coro => "coro" | .cb => "cb"} {obsS o}"
  | .freed k => s!"freed s{k}"

def sortStr (xs : List String) : List String := xs.mergeSort (fun a b => !(b < a))

def parseSp : String → Option Sp
  | "ready" => some .ready | "value" => some .value | "cready" => some .cready | "cpending" => some .cpending
  | "cinit" => some .cinit | "cvalue" => some .cvalue | "wait" => some .wait | "fwait" => some .fwait
  | "join" => some .join | "sync" => some .sync | "fsync" => some .fsync | "cwait" => some .cwait
  | "cjoin" => some .cjoin | "cderef" => some .cderef | "chasv" => some .chasv | "cbool" => some .cbool
  | "cnot" => some .cnot | "coro" => some .coro | "cb" => some .cb
  | _ => none

def parseOp (ws : List String) : Option Op :=
  match ws with
  | ["new"] => some .new
  | ["mk", "pf"] => some (.mk .pf)
  | ["mk", "ff"] => some (.mk .ff)
  | ["mk", "sv", v] => v.toNat?.map (fun v => .mk (.sv v))
  | ["mk", "se", c] => c.toNat?.map (fun c => .mk (.se c))
  | ["copy", i] => i.toNat?.map .copy
  | ["assign", i, j] => match i.toNat?, j.toNat? with
      | some i, some j => some (.assign i j)
      | _, _ => none
  | ["drop", i] => i.toNat?.map .drop
  | ["init", i] => i.toNat?.map .init
  | ["getp", i] => i.toNat?.map .getp
  | ["lshift", i] => i.toNat?.map .lshift
  | ["take", i] => i.toNat?.map .take
  | ["resolve", k, "value", v] => match k.toNat?, v.toNat? with
      | some k, some v => some (.resolve k (.value v))
      | _, _ => none
  | ["resolve", k, "exc", c] => match k.toNat?, c.toNat? with
      | some k, some c => some (.resolve k (.exc c))
      | _, _ => none
  | ["resolve", k, "drop"] => k.toNat?.map (fun k => .resolve k .drop)
  | ["resolve", k, "dtor"] => k.toNat?.map (fun k => .resolve k .dtor)
  | [sp, i] => match parseSp sp, i.toNat? with
      | some sp, some i => some (.see sp i)
      | _, _ => none
  | _ => none

def runCase (body : List (List String)) : List String := Id.run do
  let mut s : St := SharedFutureApi.init
  let mut out : Array String := #[]
  for ws in body do
    match parseOp ws with
    | none => out := out.push "?"
    | some op =>
        let (s', o, evs) := step s op
        s := s'
        out := out.push (withEvents (outS o) (sortStr (evs.map evS)))
  out := out.push (withEvents "end alive=0 vbal=0 ebal=0" (sortStr ((endEvs s).map evS)))
  return out.toList

end Api

partial def loop (lines : Array String) (i : Nat) (hdr : List String) (body : List (List String)) : IO Unit := do
  if h : i < lines.size then
    let ws := words lines[i]
    match ws with
    | "case" :: _ :: _ =>
        loop lines (i+1) ws []
    | ["end"] =>
        IO.println s!"case {hdr[1]?.getD "?"}"
        for l in (if hdr[2]? == some "api" then Api.runCase body.reverse else runCase hdr body.reverse) do IO.println l
        loop lines (i+1) [] []
    | [] => loop lines (i+1) hdr body
    | _ => loop lines (i+1) hdr (ws :: body)
  else return ()

def main : IO Unit := do
  let lines ← readLines (← IO.getStdin)
  loop lines 0 [] []
