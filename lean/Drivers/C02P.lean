import CoclsModel.Proto
import CoclsModel.ChainPtr
/-! Driver for the `ptr-level` suite of C02: runs the POINTER-LEVEL micro-step chain model (`ChainPtr.lean`) on the scenarios of
harness/h_chain.cpp with case kind `chainp`.  Same scenario grammar and same lines as `Drivers/C01.lean` (which runs the list-level
model), plus, after every operation line, the digest `p head=<ptr> n<i>=<ptr> ...` of the model's pointer state — the slot and the
`_next` field of every waiter node the harness can look at — and, after every `obs w<i>` of a non-blocking waiter, `po w<i> n=<ptr>`
(that waiter's own `_next`).  The harness prints the same lines from the real objects. -/
open Cocls Cocls.Proto
open Cocls.Chain (Outcome RK WK Kind Seen Obs Ev Cfg wkOf assignOverKind assignedDefault)
open Cocls.ChainPtr

def seenStr : Seen → String
  | Seen.null => "null"
  | Seen.node _ => "ptr"
  | Seen.ready => "ready"

def obsStr (isVoid : Bool) : Obs → String
  | Obs.val v => if isVoid then "v" else s!"v:{v}"
  | Obs.exc c => s!"exc:{c}"
  | Obs.canceled => "canceled"
  | Obs.notready => "notready"
  | Obs.hv b => "hv:" ++ boolStr b

def evStr (isVoid : Bool) : Ev → String
  | Ev.opLoadSlot t s => s!"s {t} load slot {seenStr s}"
  | Ev.opCas t ok s => s!"s {t} cas{if ok then "+" else "-"} slot {seenStr s}>ptr"
  | Ev.opXchgOwner t had => s!"s {t} xchg owner {if had then "ptr" else "null"}>null"
  | Ev.opLoadOwner t had => s!"s {t} load owner {if had then "ptr" else "null"}"
  | Ev.opXchgSlot t s => s!"s {t} xchg slot {seenStr s}>ready"
  | Ev.opStoreFlag t w => s!"s {t} store a{w}.0 1"
  | Ev.waitBlock t => s!"s {t} wait-block a{t}.0"
  | Ev.waitPass t => s!"s {t} wait-pass a{t}.0"
  | Ev.dBlock t => s!"s {t} wait-block resolvers"
  | Ev.fin t => s!"s {t} fin"
  | Ev.obs w o => s!"obs w{w} {obsStr isVoid o}"
  | Ev.ret t b => s!"ret t{t} {boolStr b}"

def isOpEv : Ev → Bool
  | Ev.obs _ _ => false
  | Ev.ret _ _ => false
  | _ => true

def parseKind (ws : List String) : Option Kind :=
  match ws with
  | ["r", "value", v] => v.toNat?.map (fun v => Kind.res (RK.value v))
  | ["r", "exc", c] => c.toNat?.map (fun c => Kind.res (RK.exc c))
  | ["r", "drop"] => some (Kind.res RK.drop)
  | ["r", "throwv"] => some (Kind.res RK.drop)   -- value construction throws after the claim: the future is resolved without a value
  | ["d"] => some Kind.dtor            -- replaced by `Kind.ddef v` when the promise object is a promise_with_default (`pwd` line)
  | ["w", "coro"] => some (Kind.wait WK.coro)
  | ["w", "sync"] => some (Kind.wait WK.sync)
  | ["w", "cb"] => some (Kind.wait WK.cb)
  | ["w", "hasv"] => some (Kind.wait WK.hasv)
  | _ => none

def ptrStr : Seen → String
  | Seen.null => "null"
  | Seen.node w => s!"w{w}"
  | Seen.ready => "ready"

/-- the harness can look at the node of waiter `i`: a coroutine's / `has_value()` awaiter's / callback's node from its construction
(the waiter's first step) until its result is read; a blocking waiter's stack node from its first CAS attempt until it is refused
or passes the wait -/
def printable (c : Cfg) (s : State) (i : Nat) : Bool :=
  match c.kind i with
  | Kind.wait WK.sync => s.pc i == Pc.wCas false || s.pc i == Pc.wWait || s.pc i == Pc.wBlocked
  | Kind.wait _ => s.pc i != Pc.wLoad && s.observed i == 0
  | _ => false

def digest (c : Cfg) (s : State) : String :=
  "p head=" ++ ptrStr s.head ++ String.join ((List.range c.n).filterMap fun i =>
    if printable c s i then some s!" n{i}={ptrStr (s.next i)}" else none)

/-- the lines of one step: its events, and after the result read of a non-blocking waiter that waiter's own `_next` -/
def stepLines (c : Cfg) (isVoid : Bool) (s' : State) (evs : List Ev) : List String :=
  evs.flatMap fun e =>
    match e with
    | Ev.obs w _ =>
        match c.kind w with
        | Kind.wait WK.sync => [evStr isVoid e]
        | Kind.wait _ => [evStr isVoid e, s!"po w{w} n={ptrStr (s'.next w)}"]
        | _ => [evStr isVoid e]
    | _ => [evStr isVoid e]

/-- the baton scheduler's choice: the named thread if enabled, else the next enabled one cyclically -/
def pick (c : Cfg) (s : State) (want : Option Nat) : Option Nat :=
  match want with
  | some w => ((List.range c.n).map (fun k => (w + k) % c.n)).find? (enabled c s)
  | none => (List.range c.n).find? (enabled c s)

def allDone (c : Cfg) (s : State) : Bool := (List.range c.n).all fun i => s.pc i == Pc.done

/-- returns the final state, the output lines (reversed) and whether the run deadlocked -/
partial def runSched (c : Cfg) (isVoid : Bool) (s : State) (sched : List Nat) (acc : Array String) (fuel : Nat) :
    State × Array String × Bool :=
  if fuel = 0 then (s, acc, true) else
  if allDone c s then (s, acc, false) else
  let (want, rest) := match sched with
    | w :: r => (some (w % c.n), r)
    | [] => (none, [])
  match pick c s want with
  | none => (s, acc, true)
  | some t =>
    let (s', evs) := pstep c s t
    runSched c isVoid s' rest (acc ++ (stepLines c isVoid s' evs).toArray |>.push (digest c s')) (fuel - 1)

def runCase (hdr : List String) (body : List (List String)) : List String := Id.run do
  let tyName := hdr[3]?.getD "int"
  let isVoid := tyName == "void"
  -- `pwd <variant> <v>`: the promise object is a promise_with_default (`def`), _v (`defv`) or _vp (`defvp`) with default v
  let pwd : Option Nat := (body.find? (fun w => w.head? == some "pwd")).bind (fun w => (w[2]?.getD "").toNat?)
  let dk : Kind := match pwd with
    | some v => Kind.ddef v
    | none => Kind.dtor
  let kinds := (body.filterMap parseKind).map (fun k => if k == Kind.dtor then dk else k)
  -- how the controller ends the promise's life when no `d` thread does:
  --   default: destroys it; `assign-end`: move-assigns an empty promise of its class over it (no-value; the default for a pwd);
  --   `assign-from <va>`: move-assigns it into an empty promise_with_default with default va and destroys that one
  let assignEnd := body.any (fun w => w.head? == some "assign-end")
  let assignFrom : Option Nat := (body.find? (fun w => w.head? == some "assign-from")).bind (fun w => (w[1]?.getD "").toNat?)
  let endKind : Kind :=
    if assignEnd then assignOverKind pwd else
    match pwd, assignFrom with
    | some v, some va => Kind.ddef (assignedDefault va v)
    | some v, none => Kind.ddef v
    | none, _ => Kind.dtor
  -- `bind-end <call|move|drop> <v>`: the controller ends the promise's life through `promise::bind()` (only for a plain promise that
  -- is still there, and for payload types a bound argument tuple can carry): `call` / `move` = one more resolver call with value v,
  -- sequenced after all threads, then the (by then empty) promise is destroyed; `drop` = the function object dies uncalled = `~promise`
  let bindEnd : Option Nat := (body.find? (fun w => w.head? == some "bind-end")).bind (fun w =>
    if (w[1]?.getD "") == "call" || (w[1]?.getD "") == "move" then (w[2]?.getD "").toNat? else none)
  let bindOk := pwd.isNone && !assignEnd && assignFrom.isNone && tyName != "ref" && tyName != "thrower"
  let sched := (body.filter (fun w => w.head? == some "sched")).flatMap (fun w => (w.drop 1).filterMap String.toNat?)
  let n := kinds.length
  let hasD := kinds.any (· == dk)
  -- one extra (unscheduled) destructor agent at index n for the controller's post-run destruction
  let karr := kinds.toArray
  let bindCall : Option Nat := if bindOk && !hasD then bindEnd else none
  let cfg : Cfg := { n := n, kind := fun i =>
    if i = n then (match bindCall with | some v => Kind.res (RK.value v) | none => endKind)
    else if i = n + 1 then endKind else karr[i]?.getD Kind.dtor }
  let s0 := init { cfg with n := n + 2 }
  let s0 := if hasD then setPc s0 n Pc.done else s0
  let s0 := if bindCall.isNone then setPc s0 (n + 1) Pc.done else s0
  let throwers := (body.filter (fun w => w.head? == some "r" || w.head? == some "w" || w.head? == some "d")).zipIdx.filterMap
    (fun (w, i) => if w == ["r", "throwv"] then some i else none)
  let fixRet (l : String) : String :=
    match words l with
    | ["ret", t, "1"] => if throwers.any (fun i => t == s!"t{i}") then s!"ret {t} threw" else l
    | _ => l
  let (s1, out0, dead) := runSched cfg isVoid s0 sched #[] 100000
  let out := out0.map fixRet
  if dead then return (out.toList ++ ["deadlock", "end"])
  -- controller destroys the promise (silent: not a scheduled thread)
  let cfg' := { cfg with n := n + 2 }
  let mut s := s1
  let mut lines := out
  for a in [n, n + 1] do
    for _ in [0:1000] do
      if s.pc a == Pc.done then break
      let (s', evs) := pstep cfg' s a
      s := s'
      lines := lines ++ (stepLines cfg' isVoid s' (evs.filter (fun e => !isOpEv e))).toArray
  lines := lines.push "promise-destroyed"
  let st := if s.head = Seen.ready then "ready" else "pending"
  let val := if s.head = Seen.ready then obsStr isVoid (obsOf s.payload WK.coro s.head) else "-"
  let hv := if s.head = Seen.ready then boolStr (s.payload != Outcome.none) else "-"
  lines := lines.push s!"final {st} {val} hv={hv}"
  for i in [0:n] do
    match karr[i]? with
    | some (Kind.wait _) => lines := lines.push s!"waiter w{i} released={s.observed i}"
    | _ => pure ()
  if tyName == "counted" then lines := lines.push "counted ctor-dtor=0"
  if tyName == "thrower" then lines := lines.push "thrower ctor-dtor=0"
  return (lines.toList ++ ["end"])

partial def loop (lines : Array String) (i : Nat) (hdr : List String) (body : List (List String)) : IO Unit := do
  if h : i < lines.size then
    let ws := words lines[i]
    match ws with
    | "case" :: id :: _ =>
        loop lines (i+1) ws []
    | ["end"] =>
        IO.println s!"case {hdr[1]?.getD "?"}"
        for l in runCase hdr body.reverse do IO.println l
        loop lines (i+1) [] []
    | [] => loop lines (i+1) hdr body
    | _ => loop lines (i+1) hdr (ws :: body)
  else return ()

def main : IO Unit := do
  let lines ← readLines (← IO.getStdin)
  loop lines 0 [] []
