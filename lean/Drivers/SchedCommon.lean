import CoclsModel.Proto
/-!
The scheduler side of the scheduled suites (harness/h_queue.cpp `run_sched`, kinds `sq` / `svq` / `slq`), shared by
the C09 and C10 drivers.  The harness runs every operation on its own thread and lets it park

* `paused`  after a lock region that left a promise to resolve outside the lock  (model: the in-flight list grew),
* `holding` (`hold <op>`) inside its lock region, right after `lock()`           (model: the step has not happened yet),
* `blocked` in front of `lock()` while another operation holds the lock          (model: the step has not happened yet);

`deliver k` resumes the k-th parked operation.  An operation that was holding or blocked takes its model step when it
is delivered - that is its linearisation point, after the holder's lock region.  A model operation is exactly one lock
region (`r=1`, printed on the line on which the operation entered it), a resolution none (`r=0`).
-/
namespace Cocls.Sched
open Cocls.Proto

/-- an event to print: `(0 = pop | 1 = push, harness id, text)` -/
abbrev SEv := Nat × Nat × String

def sevKey (e : SEv) : Nat × Nat := (e.1, e.2.1)

def finish (head : String) (evs : List SEv) : String :=
  withEvents head ((sortBy sevKey evs).map (·.2.2))

/-- what one lock region of the model did -/
structure Applied (σ : Type) where
  st : σ
  status : String            -- what the call returns (if it parks for a resolution: what it will return then)
  paused : Bool              -- a resolution was left in flight
  own : Option SEv           -- the call's own future, if it is (or will be, once the call returned) complete

structure Model (σ : Type) where
  /-- label and harness id of an operation line, given the numbers of pops / pushes issued so far -/
  issue : List String → Nat × Nat → Option (String × Nat × (Nat × Nat))
  apply : σ → List String → Nat → Applied σ
  /-- perform the k-th in-flight resolution of the model -/
  deliver : σ → Nat → σ × List SEv
  /-- the destructor: what happens to the futures that are still parked in the queue -/
  destroy : σ → List SEv

inductive PKind where
  | resolve | holder | blocked
  deriving DecidableEq

structure Pending where
  kind : PKind
  label : String
  status : String := ""
  own : Option SEv := none
  ws : List String := []
  hid : Nat := 0

structure G (σ : Type) where
  st : σ
  pend : List Pending := []      -- the parked operations, in the order in which they parked
  held : Bool := false           -- an operation is parked inside its lock region
  ctr : Nat × Nat := (0, 0)

/-- the operation enters its lock region now -/
def runNow {σ} (m : Model σ) (g : G σ) (label : String) (ws : List String) (hid : Nat) : G σ × String × Option SEv :=
  let a := m.apply g.st ws hid
  if a.paused then
    ({ g with st := a.st, pend := g.pend ++ [{ kind := PKind.resolve, label := label, status := a.status, own := a.own }] },
     "paused", none)
  else ({ g with st := a.st }, a.status, a.own)

/-- an operation line (`hold` already stripped) -/
def opLine {σ} (m : Model σ) (g : G σ) (ws : List String) (hold : Bool) : G σ × String :=
  match m.issue ws g.ctr with
  | none => (g, "bad-op")
  | some (label, hid, ctr') =>
    let g := { g with ctr := ctr' }
    if g.held then
      ({ g with pend := g.pend ++ [{ kind := PKind.blocked, label := label, ws := ws, hid := hid }] }, s!"{label} blocked r=0")
    else if hold then
      ({ g with held := true, pend := g.pend ++ [{ kind := PKind.holder, label := label, ws := ws, hid := hid }] },
       s!"{label} holding r=1")
    else
      let (g', shown, _) := runNow m g label ws hid
      (g', s!"{label} {shown} r=1")

def resolveIdx (pend : List Pending) (k : Nat) : Nat :=
  ((pend.take k).filter (·.kind == PKind.resolve)).length

/-- resume the k-th parked operation: new state, head text after `deliver `, events, own completion (for a flush) -/
def resume {σ} (m : Model σ) (g : G σ) (k : Nat) (p : Pending) : G σ × String × List SEv × Option SEv :=
  let rest := g.pend.eraseIdx k
  match p.kind with
  | PKind.resolve =>
      let (st', evs) := m.deliver g.st (resolveIdx g.pend k)
      ({ g with st := st', pend := rest }, s!"r=0 ret={p.label}:{p.status}", evs, p.own)
  | PKind.holder =>
      let (g', shown, own) := runNow m { g with pend := rest, held := false } p.label p.ws p.hid
      (g', s!"r=0 ret={p.label}:{shown}", [], own)
  | PKind.blocked =>
      let (g', shown, own) := runNow m { g with pend := rest } p.label p.ws p.hid
      (g', s!"r=1 ret={p.label}:{shown}", [], own)

def deliverLine {σ} (m : Model σ) (g : G σ) (k : Nat) : G σ × String :=
  match g.pend[k]? with
  | none => (g, "deliver none")
  | some p =>
    if p.kind == PKind.blocked && g.held then (g, "deliver held")
    else
      let (g', head, evs, _) := resume m g k p
      (g', finish ("deliver " ++ head) evs)

/-- every parked call finishes - always the first one that can proceed - before the queue dies -/
def flushAll {σ} (m : Model σ) (g : G σ) (evs : List SEv) : Nat → G σ × List SEv
  | 0 => (g, evs)
  | n + 1 =>
    let idx := g.pend.findIdx (fun p => !(p.kind == PKind.blocked && g.held))
    match g.pend[idx]? with
    | none => (g, evs)
    | some p =>
      let (g', _, es, own) := resume m g idx p
      flushAll m g' (evs ++ es ++ own.toList) n

def destroyLine {σ} (m : Model σ) (g : G σ) (head : String) : String :=
  let (g', evs) := flushAll m g [] (2 * g.pend.length + 2)
  finish head (evs ++ m.destroy g'.st)

partial def skipToEnd (lines : Array String) (i : Nat) : Nat :=
  if h : i < lines.size then
    if words lines[i] == ["end"] then i + 1 else skipToEnd lines (i + 1)
  else i

/-- run one case (the lines after `case …`); returns the index of the line after `end` -/
partial def caseLoop {σ} (m : Model σ) (lines : Array String) (i : Nat) (g : G σ) : IO Nat := do
  if h : i < lines.size then
    let ws0 := words lines[i]
    let (hold, ws) := match ws0 with
      | "hold" :: rest => if rest.isEmpty then (false, ws0) else (true, rest)
      | _ => (false, ws0)
    match ws with
    | [] => caseLoop m lines (i+1) g
    | ["end"] =>
        IO.println (destroyLine m g "end")
        return i + 1
    | ["destroy"] =>
        IO.println (destroyLine m g "destroy")
        IO.println "end"
        return skipToEnd lines (i+1)
    | ["deliver", k] =>
        match (if hold then none else k.toNat?) with
        | some k =>
            let (g', out) := deliverLine m g k
            IO.println out
            caseLoop m lines (i+1) g'
        | none => IO.println "bad-op"; caseLoop m lines (i+1) g
    | _ =>
        let (g', out) := opLine m g ws hold
        IO.println out
        caseLoop m lines (i+1) g'
  else return i

end Cocls.Sched
