import CoclsModel.Proto
import CoclsModel.Scheduler
/-! Driver for C12: runs the scheduler model (with libstdc++'s heap algorithms, `stdHeap`) on the harness input
(same grammar as harness/h_sched.cpp). -/
open Cocls Cocls.Proto Cocls.Sched

def H : Heap := stdHeap

/-- identifier standing for `&tag` of the `interval()` coroutine frame (harness identifiers are < 2^20) -/
def tagId : Nat := 4000000

/-- the `interval()` generator as a client program of the scheduler -/
structure Ivl where
  dur : Nat
  started : Bool := false          -- body entered: the stop callback is registered
  stopReq : Bool := false
  done : Bool := false
  sleeping : Bool := false         -- suspended in `co_await waiter` (a sleep carrying `&tag` is pending)
  asked : Bool := false            -- the harness holds an unresolved future of the generator
  nextTp : Nat := 0

structure DState where
  s : State := init
  ivl : Option Ivl := none
  tags : List Nat := []            -- serials of the sleeps scheduled by the generator
  clock : Nat := 0

def fateStr : Fate → String
  | Fate.expired _ => "ok"
  | Fate.cancelled 0 => "canceled"
  | Fate.cancelled c => s!"exc:{c}"
  | Fate.removed => "ok"
  | Fate.dropped => "canceled"

def timeStr : Option Nat → String
  | none => "t:max"
  | some t => s!"t:{t}"

/-- runtime check of the heap contract on the model's own vector (proved in general: `stdHeap_spec`) -/
def heapOk (l : List Entry) : Bool :=
  (List.range l.length).all (fun j => j == 0 || decide ((getE l ((j - 1) / 2)).tp ≤ (getE l j).tp))

def dumpStr (h : List Entry) : String :=
  joinWith " " (s!"n={h.length}" :: h.map (fun e =>
    (toString e.tp) ++ ":" ++ (if e.id < 1048576 then toString e.id else "T") ++ ":" ++ boolStr e.alive))

/-- harness index of a sleep: the generator's own sleeps are not in the harness' future set -/
def display (d : DState) (serial : Nat) : Nat := serial - (d.tags.filter (· < serial)).length

/-- translate the completions logged since `s0` into harness events and let the generator react to its own -/
def absorb (d : DState) (s0 : State) (sortThem : Bool := false) : DState × List String :=
  let fresh := d.s.log.drop s0.log.length
  let fresh := if sortThem then sortBy (fun x => (x.serial, 0)) fresh else fresh
  fresh.foldl (fun (acc : DState × List String) (x : Done) =>
    let (d, evs) := acc
    if d.tags.contains x.serial then
      match d.ivl, x.fate with
      | some g, Fate.expired now =>
          -- resumed after the sleep: `next = now() + dur; co_yield counter`
          ({ d with ivl := some { g with sleeping := false, asked := false, nextTp := now + g.dur } }, evs ++ ["ivl=tick"])
      | some g, _ =>
          -- await_canceled_exception caught: the generator finishes
          ({ d with ivl := some { g with sleeping := false, asked := false, done := true } }, evs ++ ["ivl=done"])
      | none, _ => (d, evs)
    else (d, evs ++ [s!"sleep#{display d x.serial}={fateStr x.fate}"])) (d, [])

/-- `drain now`: get_expired(now) until it returns a time point -/
def drain (s : State) (now : Nat) : Nat → State × Option Nat
  | 0 => (s, none)
  | n + 1 =>
      match step H s (Op.getExpired now) with
      | (s1, Res.expired _) => drain s1 now n
      | (s1, Res.next t) => (s1, t)
      | (s1, _) => (s1, none)

/-- `request_stop()` on the generator's token -/
def requestStop (d : DState) : DState × List String :=
  match d.ivl with
  | none => (d, [])
  | some g =>
      if g.stopReq then (d, [])
      else
        let g := { g with stopReq := true }
        let d := { d with ivl := some g }
        if g.started && !g.done then
          -- the stop callback: `this->cancel(&tag)`
          match runProg H (stopCallback tagId) { s := d.s } with
          | some m => absorb { d with s := m.s } d.s
          | none => (d, ["DEADLOCK"])
        else (d, [])

/-- resume the generator body for the next value at clock `now` -/
def ivlNext (d : DState) (g : Ivl) (now : Nat) : DState × String :=
  -- first entry: register the stop callback (an already stopped token runs it at once: nothing to cancel),
  -- `next = now() + dur`
  let g := if g.started then g else { g with started := true, nextTp := now + g.dur }
  if g.stopReq then
    ({ d with ivl := some { g with done := true } }, "next ready ntf=0 ; ivl=done")
  else
    match step H d.s (Op.schedule g.nextTp tagId) with
    | (s1, Res.scheduled k ntf) =>
        ({ d with s := s1, tags := d.tags ++ [k], ivl := some { g with sleeping := true, asked := true } },
         s!"next pending ntf={boolStr ntf}")
    | (s1, _) => ({ d with s := s1 }, "bad-op")

def withEv (d : DState × List String) (head : String) : DState × String := (d.1, withEvents head d.2)

/-- manual mode: one op line -> new state and output line; `none` when the line is not an op -/
def manOp (d : DState) (ws : List String) : Option (DState × String) :=
  let nat (i : Nat) : Nat := (natArg ws i).getD 0
  let s := d.s
  match ws with
  | "sleep" :: _ | "sched" :: _ =>
      match step H s (Op.schedule (nat 1) (nat 2)) with
      | (s1, Res.scheduled k ntf) =>
          let d1 := { d with s := s1 }
          some (d1, s!"sleep#{display d1 k} pending ntf={boolStr ntf}")
      | (s1, _) => some ({ d with s := s1 }, "bad-op")
  | "ge" :: _ =>
      match step H s (Op.getExpired (nat 1)) with
      | (s1, Res.expired _) => some (withEv (absorb { d with s := s1, clock := nat 1 } s) "ge p")
      | (s1, Res.next t) => some ({ d with s := s1, clock := nat 1 }, s!"ge {timeStr t}")
      | (s1, _) => some ({ d with s := s1 }, "bad-op")
  | "drain" :: _ =>
      let (s1, t) := drain s (nat 1) (s.heap.length + 2)
      some (withEv (absorb { d with s := s1, clock := nat 1 } s) s!"drain {timeStr t}")
  | ["cancel", _] | ["cancelx", _, _] =>
      match step H s (Op.cancel (nat 1) (nat 2)) with
      | (s1, Res.flag b) => some (withEv (absorb { d with s := s1 } s) s!"cancel {boolStr b}")
      | (s1, _) => some ({ d with s := s1 }, "bad-op")
  | "remove" :: _ =>
      match step H s (Op.remove (nat 1)) with
      | (s1, Res.removed r) => some (withEv (absorb { d with s := s1 } s) s!"remove {boolStr r.isSome}")
      | (s1, _) => some ({ d with s := s1 }, "bad-op")
  | ["dump"] => some (d, "dump " ++ dumpStr s.heap)
  | "ivl" :: _ => some ({ d with ivl := some { dur := nat 1 }, clock := nat 2 }, "ivl")
  | "next" :: _ =>
      match d.ivl with
      | none => some (d, "next n/a")
      | some g =>
          if g.asked || g.done then some ({ d with clock := nat 1 }, "next n/a")
          else some (ivlNext { d with clock := nat 1 } g (nat 1))
  | ["stop"] =>
      match d.ivl with
      | none => some (d, "stop n/a")
      | some g => some (withEv (requestStop d) s!"stop {boolStr (!g.stopReq)}")
  | _ => none

/-- end of a case: stop and destroy the generator, then destroy the scheduler -/
def finish (d : DState) : List String :=
  let (d1, evs1) := requestStop d
  let (s2, _) := step H d1.s Op.destroy
  let (_, evs2) := absorb { d1 with s := s2 } d1.s true
  evs1 ++ evs2

def check (s : State) (line : String) : String :=
  if heapOk s.heap then line else line ++ " HEAP-CONTRACT-BROKEN"

partial def loopMan (lines : Array String) (i : Nat) (d : DState) : IO Nat := do
  if h : i < lines.size then
    let ws := words lines[i]
    match ws with
    | ["end"] =>
        IO.println (withEvents "end" (finish d))
        return i + 1
    | ["destroy"] =>
        IO.println (withEvents "destroy" (finish d))
        IO.println "end"
        -- swallow the rest of the case
        let mut j := i + 1
        while j < lines.size && words lines[j]! != ["end"] do j := j + 1
        return j + 1
    | [] => loopMan lines (i + 1) d
    | _ =>
        match manOp d ws with
        | some (d1, out) => IO.println (check d1.s out); loopMan lines (i + 1) d1
        | none => IO.println "bad-op"; loopMan lines (i + 1) d
  else return i


/-! ## run mode: `start(awaitable)` in the only thread under virtual time

The scheduler model is composed with a FIFO ready queue (coroutine mode of `coro_queue`, C05) and scripted sleeper
coroutines; the worker is `Op.poll 0 clock`, `wait_until` advances the virtual clock. -/

inductive Act where
  | sleepFor (d id : Nat)
  | sleepUntil (t id : Nat)
  | cancel (id exc : Nat) (awaited : Bool)

inductive Agent where
  | worker
  | co (k : Nat)
  | stopper            -- the callback awaiting `all_done`: `request_stop()`
  deriving BEq

structure Co where
  script : List Act
  waiting : Option Nat := none     -- serial of the pending sleep
  woken : Option Nat := none       -- serial of the sleep that just completed (until the coroutine runs again)
  pendingCancel : Option (Nat × Bool) := none   -- suspended in `co_await cancel(id)`: (id, result)

structure RState where
  s : State := init
  clock : Nat := 0
  q : List Agent := []
  cos : Array Co := #[]
  live : Nat := 0
  started : Bool := false          -- inside `start()`: `all_done` has its callback attached
  allDone : Bool := false
  stop : Bool := false
  evs : Array String := #[]

def parseAct (w : String) : Option Act :=
  let kind := w.front
  let rest := (w.drop 1).toString
  let parts := rest.splitOn ":"
  let a := (parts[0]? >>= String.toNat?).getD 0
  let b := (parts[1]? >>= String.toNat?).getD 0
  match kind with
  | 's' => some (Act.sleepFor a b)
  | 'u' => some (Act.sleepUntil a b)
  | 'c' => some (Act.cancel a 0 false)
  | 'a' => some (Act.cancel a 0 true)
  | 'x' => some (Act.cancel a b false)
  | 'y' => some (Act.cancel a b true)
  | _ => none

def RState.emit (r : RState) (e : String) : RState := { r with evs := r.evs.push e }

def findCo (r : RState) (serial : Nat) : Option Nat :=
  (List.range r.cos.size).find? (fun k => (r.cos[k]?.bind (·.waiting)) == some serial)

def setCo (r : RState) (k : Nat) (c : Co) : RState := { r with cos := r.cos.setIfInBounds k c }

/-- coroutine `k` finished: the last one resolves `all_done` -/
def coDone (r : RState) (k : Nat) : RState :=
  let r := r.emit s!"D{k}@{r.clock}"
  let r := { r with live := r.live - 1 }
  if r.live == 0 then
    if r.started then { r with allDone := true, q := r.q ++ [Agent.stopper] } else { r with allDone := true }
  else r

/-- run coroutine `k` from its current action up to its next suspension; returns the agent to transfer to directly
(`co_await cancel(..)` that hit) -/
partial def runActs (r : RState) (k : Nat) : RState × Option Agent :=
  match r.cos[k]? with
  | none => (r, none)
  | some c =>
    match c.script with
    | [] => (coDone r k, none)
    | Act.sleepFor d id :: rest => sleepNow r k c (r.clock + d) id rest
    | Act.sleepUntil t id :: rest => sleepNow r k c t id rest
    | Act.cancel id exc awaited :: rest =>
        match step H r.s (Op.cancel id exc) with
        | (s1, Res.flag true) =>
            let serial := (s1.log.getLast?.map (·.serial)).getD 0
            let victim := findCo r serial
            let r := { r with s := s1 }
            match victim with
            | none => (r.emit "LOST-VICTIM", none)
            | some v =>
                let r := setCo r v { (r.cos[v]?.getD { script := [] }) with waiting := none, woken := some serial }
                if awaited then
                  -- symmetric transfer to the victim, this coroutine goes to the back of the queue
                  let r := setCo r k { c with script := rest, pendingCancel := some (id, true) }
                  ({ r with q := r.q ++ [Agent.co k] }, some (Agent.co v))
                else
                  let r := (r.emit s!"C{k}@{r.clock}:{id}=1")
                  let r := setCo r k { c with script := rest }
                  runActs { r with q := r.q ++ [Agent.co v] } k
        | (s1, _) =>
            let r := ({ r with s := s1 }).emit s!"C{k}@{r.clock}:{id}=0"
            runActs (setCo r k { c with script := rest }) k
where
  sleepNow (r : RState) (k : Nat) (c : Co) (tp id : Nat) (rest : List Act) : RState × Option Agent :=
    match step H r.s (Op.schedule tp id) with
    | (s1, Res.scheduled serial _) =>
        let r := ({ r with s := s1 }).emit s!"S{k}@{r.clock}:{tp}:{id}"
        (setCo r k { c with script := rest, waiting := some serial }, none)
    | (s1, _) => ({ r with s := s1 }, none)

/-- resume coroutine `k` -/
def resumeCo (r : RState) (k : Nat) : RState × Option Agent :=
  match r.cos[k]? with
  | none => (r, none)
  | some c =>
    match c.pendingCancel with
    | some (id, _) =>
        let r := (setCo r k { c with pendingCancel := none }).emit s!"C{k}@{r.clock}:{id}=1"
        runActs r k
    | none =>
        -- woken from a sleep: the outcome is the fate logged for its serial
        let fate : Option String := match c.woken with
          | some serial => (r.s.log.find? (fun (d : Done) => d.serial == serial)).map (fun (d : Done) => fateStr d.fate)
          | none => none
        let r := (setCo r k { c with woken := none }).emit s!"W{k}@{r.clock}={fate.getD "?"}"
        runActs r k

/-- the executor: run the agent transferred to directly, else the front of the FIFO ready queue, until it is empty -/
partial def runQueue (r : RState) (direct : Option Agent) : RState :=
  let next : Option (Agent × List Agent) := match direct with
    | some a => some (a, r.q)
    | none => match r.q with
      | [] => none
      | a :: rest => some (a, rest)
  match next with
  | none => r
  | some (a, rest) =>
    let r := { r with q := rest }
    match a with
    | Agent.stopper => runQueue { r with stop := true } none
    | Agent.co k =>
        let (r, d) := resumeCo r k
        runQueue r d
    | Agent.worker =>
        if r.stop then runQueue r none      -- `if (state.stop_requested()) break;` the worker coroutine ends
        else
          match step H r.s (Op.poll 0 r.clock) with
          | (s1, Res.expired e) =>
              let r := { r with s := s1 }
              match findCo r e.serial with
              | none => runQueue ((r.emit "LOST-SLEEPER")) none
              | some k =>
                  let r := setCo r k { (r.cos[k]?.getD { script := [] }) with waiting := none, woken := some e.serial }
                  runQueue { r with q := r.q ++ [Agent.co k, Agent.worker] } none
          | (s1, Res.next t) =>
              let r := { r with s := s1 }
              if r.q.isEmpty then
                match t with
                | none => r.emit "HANG"
                | some t =>
                    let r := r.emit s!"wait:{r.clock}->{t}"
                    let r := { r with clock := max r.clock t, s := (step H r.s (Op.wake 0)).1 }
                    runQueue { r with q := r.q ++ [Agent.worker] } none
              else runQueue { r with q := r.q ++ [Agent.worker], s := (step H r.s (Op.wake 0)).1 } none
          | (s1, _) => { r with s := s1 }

/-- `go [mode]`: the awaitable handed to `start()` — 0 `future<void>` completing, 1 `future<void>` failing with
test_exc(7), 2 `future<int>` yielding 1000 + number of coroutines, 3 `future<int>` failing: what `start()` hands back -/
def retSuffix (mode n : Nat) : String :=
  match mode % 4 with
  | 0 => ""
  | 2 => s!"=v:{1000 + n}"
  | _ => "=exc:7"

def runGo (scripts : List (List Act)) (t0 : Nat) (mode : Nat := 0) : List String :=
  let r0 : RState := { clock := t0, cos := (scripts.map (fun sc => ({ script := sc } : Co))).toArray, live := scripts.length }
  let r0 := if scripts.isEmpty then { r0 with allDone := true } else r0
  -- creation: each coroutine runs up to its first suspension under its own temporary queue
  let r1 := (List.range scripts.length).foldl (fun r k =>
    let (r, d) := runActs r k
    runQueue r d) r0
  -- start(all_done)
  let r2 := { r1 with started := true, stop := r1.allDone, q := [Agent.worker] }
  let r3 := runQueue r2 none
  (r3.evs.toList ++ [s!"ret@{r3.clock}" ++ retSuffix mode scripts.length, dumpStr r3.s.heap])

partial def loopRun (lines : Array String) (i : Nat) (t0 : Nat) (scripts : List (List Act)) : IO Nat := do
  if h : i < lines.size then
    let ws := words lines[i]
    match ws with
    | ["end"] => IO.println "end"; return i + 1
    | "co" :: acts =>
        IO.println s!"co#{scripts.length}"
        loopRun lines (i + 1) t0 (scripts ++ [acts.filterMap parseAct])
    | "go" :: rest =>
        IO.println (withEvents "go" (runGo scripts t0 ((rest.head? >>= String.toNat?).getD 0)))
        loopRun lines (i + 1) t0 []
    | [] => loopRun lines (i + 1) t0 scripts
    | _ => IO.println "bad-op"; loopRun lines (i + 1) t0 scripts
  else return i

/-! ## thread / thread-pool mode under virtual time

One worker (`Op.poll 0 clock` / `Op.wake 0`) runs to its next `wait_until` after every operation of the main thread;
`adv t` moves the clock from one wait deadline to the next.

`cbs <tp> <id> s <tp2> <id2>` / `cbs <tp> <id> c <id2>` schedule a promise whose awaiter is a callback (`make_promise`)
that calls the scheduler again — `sleep_until(tp2, id2)` / `cancel(id2)` — in whatever thread resolves the promise: the
worker (inside `x()`, with `_mx` released: `workerIter`) or the caller of `cancel` / `remove`.  These calls are ordinary
operations of the model that follow the completing one. -/

structure MT where
  s : State := init
  clock : Nat := 0
  cbs : List (Nat × Op) := []          -- serial ↦ the public call its completion callback makes (not yet fired)
  cbev : List (Nat × String) := []     -- what the callbacks that returned since the last output line reported
  kids : List (Nat × Nat) := []        -- serial of a sleep created by a callback ↦ serial of the sleep the callback belongs to
  live : Bool := true                  -- harness: `sch_alive` (callbacks run by the destruction leave the scheduler alone)

def workerWait (s : State) : Option (Option Nat) := (s.waits.find? (fun p => p.1 == 0)).map (·.2)

/-- the call the completion callback of `d` makes, if it has one that re-enters the scheduler -/
def cbFor (m : MT) (d : Done) : Option Op :=
  if m.live && d.fate != Fate.dropped then m.cbs.lookup d.serial else none

/-- harness index of a sleep made by the main thread: the sleeps made by callbacks are not in the harness' future set -/
def MT.index (m : MT) (serial : Nat) : Nat := serial - (m.kids.filter (fun p => p.1 < serial)).length

/-- one callback makes its call (one lock region of the calling thread) -/
def cbCall (m : MT) (k : Nat) (op : Op) : MT × String :=
  let (s1, r) := step H m.s op
  let m1 := { m with s := s1, cbs := m.cbs.filter (fun p => p.1 != k) }
  match r with
  | Res.scheduled k2 _ => ({ m1 with kids := m1.kids ++ [(k2, k)] }, s!"cbs#{m.index k}=s")
  | Res.flag b => (m1, s!"cbc#{m.index k}={boolStr b}")
  | _ => (m1, s!"cb#{m.index k}=?")

/-- a thread that is not stalled anywhere runs the completion callbacks of everything logged from index `i` on to
their end; a callback's `cancel` that hits a sleep with a callback runs that one nested, i.e. next (every call completes
at most one sleep, so the order of the log is the order of execution) -/
partial def fireAll (m : MT) (i : Nat) : MT :=
  match m.s.log[i]? with
  | none => m
  | some d =>
    match cbFor m d with
    | none => fireAll m (i + 1)
    | some op =>
        let (m1, ev) := cbCall m d.serial op
        fireAll { m1 with cbev := m1.cbev ++ [(d.serial, ev)] } (i + 1)

/-- a public call of the main thread, including the callbacks it runs -/
def mainStep (m : MT) (op : Op) : MT × Res :=
  let (s1, r) := step H m.s op
  (fireAll { m with s := s1 } m.s.log.length, r)

/-- one free-running iteration of the worker (`workerIter`): the `poll` region, then the resolution with its callbacks -/
def workerPoll (m : MT) : MT :=
  fireAll { m with s := (step H m.s (Op.poll 0 m.clock)).1 } m.s.log.length

/-- let the worker run until it is parked on a deadline in the future -/
def settle (m : MT) : Nat → MT
  | 0 => m
  | fuel + 1 =>
      match workerWait m.s with
      | some (some d) =>
          if d ≤ m.clock then settle { m with s := (step H m.s (Op.wake 0)).1 } fuel else m
      | some none => m
      | none => settle (workerPoll m) fuel

/-- the events of one output line / one wake-up group: completions of the main thread's sleeps in index order, of the
sleeps made by callbacks in the order of their parents, then what the callbacks reported -/
def mtEvents (m0 m1 : MT) : List String :=
  let fresh := m1.s.log.drop m0.s.log.length
  let own := fresh.filter (fun d => (m1.kids.lookup d.serial).isNone)
  let made := fresh.filterMap (fun d => (m1.kids.lookup d.serial).map (fun k => (m1.index k, d)))
  (sortBy (fun (d : Done) => (d.serial, 0)) own).map (fun d => s!"sleep#{m1.index d.serial}={fateStr d.fate}@{m1.clock}") ++
  (sortBy (fun (e : Nat × Done) => (e.1, 0)) made).map (fun e => s!"cs#{e.1}={fateStr e.2.fate}@{m1.clock}") ++
  (sortBy (fun (e : Nat × String) => (e.1, 0)) m1.cbev).map (fun e => s!"{e.2}@{m1.clock}")

def MT.flushed (m : MT) : MT := { m with cbev := [] }

def settleFuel (m : MT) : Nat := 4 * (m.s.heap.length + m.cbs.length) + 8

/-- `adv t`: one group of events per wake-up -/
def advance (m : MT) (t : Nat) : Nat → MT × List String
  | 0 => (m, [])
  | fuel + 1 =>
      match workerWait m.s with
      | some (some d) =>
          if d ≤ t then
            let m1 : MT := { m with s := (step H m.s (Op.wake 0)).1, clock := max m.clock d }
            let m2 := settle m1 (settleFuel m1)
            let (m3, evs) := advance m2.flushed t fuel
            (m3, mtEvents { m with clock := m1.clock } m2 ++ evs)
          else ({ m with clock := max m.clock t }, [])
      | _ => ({ m with clock := max m.clock t }, [])

/-- `cbs <tp> <id> s <tp2> <id2>` | `cbs <tp> <id> c <id2>`: the call the callback makes -/
def cbsOp (ws : List String) : Op :=
  let nat (i : Nat) : Nat := (natArg ws i).getD 0
  match ws[3]? with
  | some "c" => Op.cancel (nat 4) 0
  | _ => Op.schedule (nat 4) (nat 5)

def mtOp (m : MT) (ws : List String) : Option (MT × String) :=
  let nat (i : Nat) : Nat := (natArg ws i).getD 0
  let fin (m1 : MT) (head : String) : MT × String :=
    let m2 := settle m1 (settleFuel m1)
    (m2.flushed, withEvents head (mtEvents m m2))
  match ws with
  | "sleep" :: _ | "sched" :: _ =>
      match mainStep m (Op.schedule (nat 1) (nat 2)) with
      | (m1, Res.scheduled k ntf) => some (fin m1 s!"sleep#{m1.index k} ntf={boolStr ntf}")
      | (m1, _) => some (m1, "bad-op")
  | "cbs" :: _ =>
      match mainStep m (Op.schedule (nat 1) (nat 2)) with
      | (m1, Res.scheduled k ntf) => some (fin { m1 with cbs := m1.cbs ++ [(k, cbsOp ws)] } s!"sleep#{m1.index k} ntf={boolStr ntf}")
      | (m1, _) => some (m1, "bad-op")
  | "adv" :: _ =>
      let (m1, evs) := advance m (nat 1) (2 * (m.s.heap.length + m.cbs.length) + 4)
      some (m1.flushed, withEvents "adv" evs)
  | ["cancel", _] | ["cancelx", _, _] =>
      match mainStep m (Op.cancel (nat 1) (nat 2)) with
      | (m1, Res.flag b) => some (fin m1 s!"cancel {boolStr b}")
      | (m1, _) => some (m1, "bad-op")
  | "remove" :: _ =>
      match mainStep m (Op.remove (nat 1)) with
      | (m1, Res.removed r) => some (fin m1 s!"remove {boolStr r.isSome}")
      | (m1, _) => some (m1, "bad-op")
  | ["dump"] => some (m, "dump " ++ dumpStr m.s.heap)
  | _ => none

/-- `~scheduler()`: callbacks run by the destruction do not use the dying scheduler -/
def mtDestroy (m : MT) : MT := { m with s := (step H m.s Op.destroy).1, live := false }

partial def loopMT (lines : Array String) (i : Nat) (m : MT) : IO Nat := do
  if h : i < lines.size then
    let ws := words lines[i]
    let finish : List String := mtEvents m (mtDestroy m)
    match ws with
    | ["end"] =>
        IO.println (withEvents "end" finish)
        return i + 1
    | ["destroy"] =>
        IO.println (withEvents "destroy" finish)
        IO.println "end"
        let mut j := i + 1
        while j < lines.size && words lines[j]! != ["end"] do j := j + 1
        return j + 1
    | [] => loopMT lines (i + 1) m
    | _ =>
        match mtOp m ws with
        | some (m1, out) => IO.println (check m1.s out); loopMT lines (i + 1) m1
        | none => IO.println "bad-op"; loopMT lines (i + 1) m
  else return i

/-! ## step mode: the worker advances one lock region per `w`, public calls run in between

The lock regions of the worker's thread are those of the lock program `workerIter` (Scheduler.lean):
`[lock, pollLk, unlock]` — ending in `lk.unlock()` when a promise was handed out, or atomically in `wait_until` —, then
`resolveExpired cb` with `_mx` released, where every public call of a completion callback is a region of its own, then the
trivial `[lock, unlock]` (loop condition only), which also follows the start of the coroutine and every return from
`wait_until`. -/

inductive StepPc where
  | trivial      -- in front of `_mx`: start of the coroutine, return from `wait_until`, or `lk.lock()` after a resolution
  | pollNext     -- in front of `_mx`: next region is a full iteration (`Op.poll`)
  | calling (k : Nat)   -- inside `x()`, `_mx` released: in front of `_mx` in the public call of the callback of sleep `k`
  | parked       -- in `wait_until`
  | free         -- step mode ended: the worker runs freely
  deriving BEq

structure SM where
  m : MT := {}
  pc : StepPc := StepPc.trivial
  outer : List (Nat × String) := []   -- callbacks whose call is made and which wait for a nested callback to return

def smStatus (x : SM) : String :=
  match x.pc with
  | StepPc.trivial | StepPc.pollNext | StepPc.calling _ => "lock"
  | _ => match workerWait x.m.s with
    | some (some d) => s!"parked:{d}"
    | some none => "parked:max"
    | none => "gone"

def smLine (x0 x1 : SM) (head : String) : SM × String :=
  ({ x1 with m := x1.m.flushed }, withEvents (head ++ " w=" ++ smStatus x1) (mtEvents x0.m x1.m))

/-- the sleep completed by the region that just ran (the log had length `n0` before), if its callback re-enters -/
def nextCallback (m : MT) (n0 : Nat) : Option Nat :=
  match m.s.log[n0]? with
  | some d => (cbFor m d).map (fun _ => d.serial)
  | none => none

/-- one lock region of the worker -/
def smWorker (x : SM) : SM :=
  match x.pc with
  | StepPc.trivial => { x with pc := StepPc.pollNext }
  | StepPc.pollNext =>
      let n0 := x.m.s.log.length
      match step H x.m.s (Op.poll 0 x.m.clock) with
      | (s1, Res.expired _) =>
          -- `lk.unlock(); x();` — the awaiter runs now: a callback stalls in front of `_mx` in its first call;
          -- otherwise `x()` returns and the worker stands in front of `lk.lock()`
          let m1 := { x.m with s := s1 }
          match nextCallback m1 n0 with
          | some k => { x with m := m1, pc := StepPc.calling k }
          | none => { x with m := m1, pc := StepPc.trivial }
      | (s1, Res.next (some d)) =>
          if d ≤ x.m.clock then { x with m := { x.m with s := (step H s1 (Op.wake 0)).1 } }   -- wait_until returns at once: same region goes on to the loop top
          else { x with m := { x.m with s := s1 }, pc := StepPc.parked }
      | (s1, _) => { x with m := { x.m with s := s1 }, pc := StepPc.parked }
  | StepPc.calling k =>
      match x.m.cbs.lookup k with
      | none => { x with pc := StepPc.trivial }
      | some op =>
          let n0 := x.m.s.log.length
          let (m1, ev) := cbCall x.m k op
          match nextCallback m1 n0 with
          | some k2 =>
              -- the call completed a sleep whose awaiter is a callback, too: it runs nested (inside `cancel()`)
              { x with m := m1, pc := StepPc.calling k2, outer := (k, ev) :: x.outer }
          | none =>
              -- the call returns, and so do the callbacks waiting for it; `x()` returns: `lk.lock()`
              { m := { m1 with cbev := m1.cbev ++ [(k, ev)] ++ x.outer }, pc := StepPc.trivial, outer := [] }
  | _ => x

/-- the stepping ends (`free`, or the destruction): a call the worker was stalled in front of goes ahead -/
def smRelease (x : SM) : SM :=
  match x.pc with
  | StepPc.calling k =>
      match x.m.cbs.lookup k with
      | none => { x with pc := StepPc.trivial }
      | some op =>
          let n0 := x.m.s.log.length
          let (m1, ev) := cbCall x.m k op
          let m2 := fireAll m1 n0
          { m := { m2 with cbev := m2.cbev ++ [(k, ev)] ++ x.outer }, pc := StepPc.trivial, outer := [] }
  | _ => x

def smOp (x : SM) (ws : List String) : Option (SM × String) :=
  let nat (i : Nat) : Nat := (natArg ws i).getD 0
  if x.pc == StepPc.free then
    -- free running: as in thread mode
    match ws with
    | ["w"] => some (smLine x x "w")
    | ["free"] => some (smLine x x "free")
    | _ =>
      match mtOp x.m ws with
      | some (m1, out) =>
          let (head, evs) := match out.splitOn " ; " with
            | [h] => (h, "")
            | h :: rest => (h, " ; " ++ " ; ".intercalate rest)
            | [] => ("", "")
          some ({ x with m := m1 }, head ++ " w=" ++ smStatus { x with m := m1 } ++ evs)
      | none => none
  else
    let sched (cb : Option Op) : Option (SM × String) :=
      match mainStep x.m (Op.schedule (nat 1) (nat 2)) with
      | (m1, Res.scheduled k ntf) =>
          let pc := if x.pc == StepPc.parked && ntf then StepPc.trivial else x.pc
          let m2 := match cb with
            | some op => { m1 with cbs := m1.cbs ++ [(k, op)] }
            | none => m1
          some (smLine x { x with m := m2, pc := pc } s!"sleep#{m2.index k} ntf={boolStr ntf}")
      | (m1, _) => some ({ x with m := m1 }, "bad-op")
    /- a callback run by the main thread (`cancel` / `remove` hit a sleep with a callback) may schedule: the parked worker
       is woken by that notification as by any other -/
    let woken (m0 m1 : MT) (pc : StepPc) : StepPc :=
      if pc == StepPc.parked && (workerWait m0.s).isSome && (workerWait m1.s).isNone then StepPc.trivial else pc
    match ws with
    | "sleep" :: _ | "sched" :: _ => sched none
    | "cbs" :: _ => sched (some (cbsOp ws))
    | ["cancel", _] | ["cancelx", _, _] =>
        match mainStep x.m (Op.cancel (nat 1) (nat 2)) with
        | (m1, Res.flag b) => some (smLine x { x with m := m1, pc := woken x.m m1 x.pc } s!"cancel {boolStr b}")
        | (m1, _) => some ({ x with m := m1 }, "bad-op")
    | "remove" :: _ =>
        match mainStep x.m (Op.remove (nat 1)) with
        | (m1, Res.removed r) => some (smLine x { x with m := m1, pc := woken x.m m1 x.pc } s!"remove {boolStr r.isSome}")
        | (m1, _) => some ({ x with m := m1 }, "bad-op")
    | ["dump"] => some (smLine x x ("dump " ++ dumpStr x.m.s.heap))
    | ["w"] => some (smLine x (smWorker x) "w")
    | "adv" :: _ =>
        let clock := max x.m.clock (nat 1)
        let x1 : SM := { x with m := { x.m with clock := clock } }
        let x2 : SM := match x1.pc, workerWait x1.m.s with
          | StepPc.parked, some (some d) =>
              if d ≤ clock then { x1 with m := { x1.m with s := (step H x1.m.s (Op.wake 0)).1 }, pc := StepPc.trivial } else x1
          | _, _ => x1
        some (smLine x1 x2 "adv")
    | ["free"] =>
        let x1 := smRelease x
        let m1 := settle x1.m (settleFuel x1.m)
        some (smLine x { x1 with m := m1, pc := StepPc.free } "free")
    | _ => none

partial def loopSM (lines : Array String) (i : Nat) (x : SM) : IO Nat := do
  if h : i < lines.size then
    let ws := words lines[i]
    let finish : List String :=
      -- `sch_alive = false`, then `~scheduler()`: a call the worker is stalled in front of still goes ahead (its callback
      -- has already decided to make it), callbacks that start from now on leave the scheduler alone
      let x1 := smRelease { x with m := { x.m with live := false } }
      mtEvents x.m (mtDestroy x1.m)
    match ws with
    | ["end"] =>
        IO.println (withEvents "end" finish)
        return i + 1
    | ["destroy"] =>
        IO.println (withEvents "destroy" finish)
        IO.println "end"
        let mut j := i + 1
        while j < lines.size && words lines[j]! != ["end"] do j := j + 1
        return j + 1
    | [] => loopSM lines (i + 1) x
    | _ =>
        match smOp x ws with
        | some (x1, out) => IO.println (check x1.m.s out); loopSM lines (i + 1) x1
        | none => IO.println "bad-op"; loopSM lines (i + 1) x
  else return i

/-! ## stop race: `~scheduler()` while the worker is between its stop check and its wait (thread mode) -/

/-- the schedule the harness forces; steps that are not enabled are skipped -/
def stopRaceSchedule : List Stop.Act :=
  [Stop.Act.wLock,                                        -- woken by the new sleep, passes the stop check (stalls)
   Stop.Act.sFlag, Stop.Act.sLock, Stop.Act.sNotify, Stop.Act.sUnlock,   -- ~scheduler in another thread
   Stop.Act.wPollWait,                                    -- released: nothing due, wait_until(tp)
   Stop.Act.sLock, Stop.Act.sNotify, Stop.Act.sUnlock,    -- the callback, if it had to wait for the mutex
   Stop.Act.wLock]

partial def loopRace (lines : Array String) (i : Nat) (tp : Nat) : IO Nat := do
  if h : i < lines.size then
    let ws := words lines[i]
    match ws with
    | ["end"] => IO.println "end"; return i + 1
    | ["go"] =>
        let s := Stop.run Stop.step {} stopRaceSchedule
        let lost := s.sp == Stop.SPc.done && s.w == Stop.WPc.waiting
        IO.println s!"go destroyed={boolStr (!lost)} ; sleep#0=canceled@{if lost then tp else 0}"
        loopRace lines (i + 1) tp
    | [] => loopRace lines (i + 1) tp
    | _ => IO.println "bad-op"; loopRace lines (i + 1) tp
  else return i

partial def loop (lines : Array String) (i : Nat) : IO Unit := do
  if h : i < lines.size then
    let ws := words lines[i]
    match ws with
    | "case" :: id :: "man" :: _ =>
        IO.println s!"case {id}"
        let j ← loopMan lines (i + 1) {}
        loop lines j
    | "case" :: id :: "thr" :: _ | "case" :: id :: "pool" :: _ =>
        IO.println s!"case {id}"
        -- the worker starts and parks itself on an empty vector
        let m0 : MT := {}
        let j ← loopMT lines (i + 1) (settle m0 4)
        loop lines j
    | "case" :: id :: "thrstep" :: _ | "case" :: id :: "poolstep" :: _ =>
        IO.println s!"case {id}"
        let j ← loopSM lines (i + 1) {}
        loop lines j
    | "case" :: id :: "stoprace" :: rest =>
        IO.println s!"case {id}"
        let j ← loopRace lines (i + 1) ((rest.head? >>= String.toNat?).getD 50)
        loop lines j
    | "case" :: id :: "run" :: rest =>
        IO.println s!"case {id}"
        let j ← loopRun lines (i + 1) ((rest.head? >>= String.toNat?).getD 0) []
        loop lines j
    | "case" :: id :: _ =>
        IO.println s!"case {id}"
        IO.println "bad-kind"
        loop lines (i + 1)
    | _ => loop lines (i + 1)
  else return ()

def main : IO Unit := do
  let lines ← readLines (← IO.getStdin)
  loop lines 0
