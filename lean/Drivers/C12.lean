import CoclsModel.Proto
import CoclsModel.Scheduler
/-! Driver for C12: runs the scheduler model (with libstdc++'s heap algorithms, `stdHeap`) on the harness input
(same grammar as harness/h_sched.cpp). -/
open Cocls Cocls.Proto Cocls.Sched

def H : Heap := stdHeap

def fateStr : Fate → String
  | Fate.expired _ => "ok"
  | Fate.cancelled 0 => "canceled"
  | Fate.cancelled c => s!"exc:{c}"
  | Fate.removed => "ok"
  | Fate.dropped => "canceled"

def doneStr (d : Done) : String := s!"sleep#{d.serial}={fateStr d.fate}"

def timeStr : Option Nat → String
  | none => "t:max"
  | some t => s!"t:{t}"

/-- runtime check of the heap contract on the model's own vector (the theorems assume it of `H`) -/
def heapOk (l : List Entry) : Bool :=
  (List.range l.length).all (fun j => j == 0 || decide ((getE l ((j - 1) / 2)).tp ≤ (getE l j).tp))

def dumpStr (h : List Entry) : String :=
  joinWith " " (s!"n={h.length}" :: h.map (fun e => s!"{e.tp}:{e.id}:{boolStr e.alive}"))

/-- `drain now`: get_expired(now) until it returns a time point -/
def drain (s : State) (now : Nat) : Nat → State × Option Nat
  | 0 => (s, none)
  | n + 1 =>
      match step H s (Op.getExpired now) with
      | (s1, Res.expired _) => drain s1 now n
      | (s1, Res.next t) => (s1, t)
      | (s1, _) => (s1, none)

def newEvents (s0 s1 : State) : List String := (s1.log.drop s0.log.length).map doneStr

def check (s : State) (line : String) : String :=
  if heapOk s.heap then line else line ++ " HEAP-CONTRACT-BROKEN"

/-- manual mode: one op line -> new state and output line; `none` when the line is not an op -/
def manOp (s : State) (ws : List String) : Option (State × String) :=
  let nat (i : Nat) : Nat := (natArg ws i).getD 0
  match ws with
  | "sleep" :: _ | "sched" :: _ =>
      match step H s (Op.schedule (nat 1) (nat 2)) with
      | (s1, Res.scheduled k ntf) => some (s1, s!"sleep#{k} pending ntf={boolStr ntf}")
      | (s1, _) => some (s1, "bad-op")
  | "ge" :: _ =>
      match step H s (Op.getExpired (nat 1)) with
      | (s1, Res.expired _) => some (s1, withEvents "ge p" (newEvents s s1))
      | (s1, Res.next t) => some (s1, s!"ge {timeStr t}")
      | (s1, _) => some (s1, "bad-op")
  | "drain" :: _ =>
      let (s1, t) := drain s (nat 1) (s.heap.length + 2)
      some (s1, withEvents s!"drain {timeStr t}" (newEvents s s1))
  | ["cancel", _] | ["cancelx", _, _] =>
      match step H s (Op.cancel (nat 1) (nat 2)) with
      | (s1, Res.flag b) => some (s1, withEvents s!"cancel {boolStr b}" (newEvents s s1))
      | (s1, _) => some (s1, "bad-op")
  | "remove" :: _ =>
      match step H s (Op.remove (nat 1)) with
      | (s1, Res.removed r) => some (s1, withEvents s!"remove {boolStr r.isSome}" (newEvents s s1))
      | (s1, _) => some (s1, "bad-op")
  | ["dump"] => some (s, "dump " ++ dumpStr s.heap)
  | _ => none

def destroyEvents (s : State) : State × List String :=
  let (s1, _) := step H s Op.destroy
  (s1, (sortBy (fun d => (d.serial, 0)) (s1.log.drop s.log.length)).map doneStr)

partial def loopMan (lines : Array String) (i : Nat) (s : State) : IO Nat := do
  if h : i < lines.size then
    let ws := words lines[i]
    match ws with
    | ["end"] =>
        let (_, evs) := destroyEvents s
        IO.println (withEvents "end" evs)
        return i + 1
    | ["destroy"] =>
        let (_, evs) := destroyEvents s
        IO.println (withEvents "destroy" evs)
        IO.println "end"
        -- swallow the rest of the case
        let mut j := i + 1
        while j < lines.size && words lines[j]! != ["end"] do j := j + 1
        return j + 1
    | [] => loopMan lines (i + 1) s
    | _ =>
        match manOp s ws with
        | some (s1, out) => IO.println (check s1 out); loopMan lines (i + 1) s1
        | none => IO.println "bad-op"; loopMan lines (i + 1) s
  else return i

partial def loop (lines : Array String) (i : Nat) : IO Unit := do
  if h : i < lines.size then
    let ws := words lines[i]
    match ws with
    | "case" :: id :: "man" :: _ =>
        IO.println s!"case {id}"
        let j ← loopMan lines (i + 1) init
        loop lines j
    | "case" :: id :: _ =>
        IO.println s!"case {id}"
        IO.println "bad-kind"
        loop lines (i + 1)
    | _ => loop lines (i + 1)
  else return ()

def main : IO Unit := do
  let lines ← readLines (← IO.getStdin)
  loop lines 0
