import CoclsModel.Proto
import CoclsModel.SuspendPoint
/-! Driver for C06: runs the `suspend_point` model on the harness input (same grammar as harness/h_suspend_point.cpp). -/
open Cocls Cocls.Proto Cocls.SP

def driverId : Nat := 99

def evStr : Ev → String
  | Ev.res h => s!"r{h}"
  | Ev.alloc c => s!"n{c}"
  | Ev.free c => s!"d{c}"
  | Ev.badfree => "dBAD"
  | Ev.oob => "OOB"

def sizesStr (s : State) : String :=
  joinWith "," ((List.range s.objs.length).map fun i =>
    match s.obj i with
    | some o => toString (o.cf / 2)
    | none => "-")

/-- `ncoros` counting coroutines exist; handle ids beyond that are rejected by the harness -/
def parseOp (s : State) (ws : List String) (coroMode : Bool) (ncoros : Nat) : Option Op :=
  let n (x : String) := x.toNat?
  let hOk (h : Nat) : Option Nat := if h < ncoros then some h else none
  match ws with
  | ["ctor", i] => (n i).map Op.ctor
  | ["ctorh", i, h] => do let i ← n i; let h ← (n h).bind hOk; pure (Op.ctorH i h)
  | ["ctorv", i, v] => do let i ← n i; let v ← n v; pure (Op.ctorV i v)
  | ["ctorhv", i, h, v] => do let i ← n i; let h ← (n h).bind hOk; let v ← n v; pure (Op.ctorHV i h v)
  | ["ctorsv", i, j, v] => do let i ← n i; let j ← n j; let v ← n v; pure (Op.ctorSV i j v)
  | ["mov", i, j] => do let i ← n i; let j ← n j; pure (Op.mov i j)
  | ["movb", i, j] => do let i ← n i; let j ← n j; pure (Op.movBase i j)
  | ["mrg", i, j] => do let i ← n i; let j ← n j; pure (Op.merge i j)
  | ["asg", i, j] => do let i ← n i; let j ← n j; pure (Op.assign i j)
  | ["addh", i, h] => do let i ← n i; let h ← (n h).bind hOk; pure (Op.addH i h)
  | ["addme", i, me] => do
      let i ← n i; let me ← n me
      if (coroMode && me == driverId) || (!coroMode && me ≥ ncoros) then pure (Op.addH i me) else none
  | ["ctorself", i, me] => do
      let i ← n i; let me ← n me
      if coroMode && me == driverId then pure (Op.ctorH i me) else none
  | ["pop", i] => (n i).map Op.pop
  | ["delx", i] => (n i).map Op.dtor        -- destroyed during stack unwinding: the same step as plain destruction
  | ["clearx", i] => (n i).map Op.clear     -- moved into a local that is destroyed during stack unwinding
  | "csp" :: i :: hs => do
      let i ← n i
      let hs ← hs.mapM (fun h => (n h).bind hOk)
      pure (Op.create i hs none)
  | "cspv" :: i :: v :: hs => do
      let i ← n i; let v ← n v
      let hs ← hs.mapM (fun h => (n h).bind hOk)
      pure (Op.create i hs (some v))
  | ["clear", i] => (n i).map Op.clear
  | ["del", i] => (n i).map Op.dtor
  | ["await", i, me] => do
      let i ← n i; let me ← n me
      if (coroMode && me != driverId) || (!coroMode && me < ncoros) then none else pure (Op.await i me)
  | ["yield", me] => do
      let me ← n me
      if coroMode && me == driverId then pure (Op.yield me) else none
  | ["size", i] => (n i).map Op.size
  | ["empty", i] => (n i).map Op.empty
  | ["val", i] => (n i).map Op.value
  | ["conv", i] => (n i).map Op.conv
  | ["cconv", i] => (n i).map Op.cconv
  | ["ares", i] => (n i).map Op.ares
  -- faults
  | ["addhf", i, h] => do let i ← n i; let h ← (n h).bind hOk; pure (Op.fault (FOp.addF i h))
  | ["mrgf", i, j, k] => do let i ← n i; let j ← n j; let k ← n k; pure (Op.fault (FOp.mergeF i j k))
  | ["asgf", i, j, k] => do
      let i ← n i; let j ← n j; let k ← n k
      -- only for a suspend_point<void> target (the base assignment, which forwards to operator<<)
      match s.obj i with
      | some o => if o.typed then none else pure (Op.fault (FOp.mergeF i j k))
      | none => pure (Op.fault (FOp.mergeF i j k))
  | "call" :: j :: hs => do
      let j ← if j == "-" then pure none else (n j).map some
      let hs ← hs.mapM (fun h => (n h).bind hOk)
      -- the queue is flushed while the driver coroutine runs: refused when its own handle waits there
      if coroMode && (s.queue.contains driverId || (match j with | some jj => (handles s jj).contains driverId | none => false))
      then none else pure (Op.fault (FOp.call hs j false))
  | "callx" :: j :: hs => do
      let j ← if j == "-" then pure none else (n j).map some
      let hs ← hs.mapM (fun h => (n h).bind hOk)
      if coroMode && (s.queue.contains driverId || (match j with | some jj => (handles s jj).contains driverId | none => false))
      then none else pure (Op.fault (FOp.call hs j true))
  | "cspx" :: hs => do
      let hs ← hs.mapM (fun h => (n h).bind hOk)
      pure (Op.fault (FOp.createX hs))
  | ["act"] => pure (Op.fault FOp.isActive)
  | _ => none

def line (head : String) (s : State) (n0 : Nat) : String :=
  withEvents (head ++ " | " ++ sizesStr s) ((s.trace.drop n0).map evStr)

def doOp (s : State) (op : Op) : State × String :=
  let n0 := s.trace.length
  let (s1, r) := step s op
  let vstr : String := match r with
    | Res.num k => toString k
    | Res.gone => "M"            -- a moved-from value
    | _ => "?"
  let head := match r, op with
    | Res.bad, _ => "bad"
    | Res.threw, _ => "threw"
    | Res.flag b, Op.fault _ => "act " ++ boolStr b
    | Res.handle none, _ => "pop noop"
    | Res.handle (some h), _ => s!"pop {h}"
    | Res.num k, Op.size _ => s!"size {k}"
    | _, Op.value _ => "val " ++ vstr
    | _, Op.conv _ => "conv " ++ vstr
    | _, Op.cconv _ => "cconv " ++ vstr
    | _, Op.ares _ => "ares " ++ vstr
    | Res.unit, _ => "ok"
    | _, Op.await _ _ => "aw " ++ vstr          -- co_await on a typed suspend point yields its value
    | Res.num k, _ => s!"size {k}"
    | Res.flag b, _ => "empty " ++ boolStr b
    | Res.gone, _ => "M"
  (s1, line head s1 n0)

partial def loop (lines : Array String) (i : Nat) (st : Option (State × Bool × Nat)) : IO Unit := do
  if h : i < lines.size then
    let ws := words lines[i]
    match ws, st with
    | ("case" :: id :: "sp" :: mode :: n :: k :: _), _ =>
        IO.println s!"case {id}"
        loop lines (i+1) (some (init (n.toNat?.getD 0) (mode == "c"), mode == "c", k.toNat?.getD 0))
    | ["end"], some (s, _, _) =>
        let n0 := s.trace.length
        let s1 := run s (endOps s.objs.length)
        IO.println (line s!"end live={s1.live.length}" s1 n0)
        loop lines (i+1) none
    | [], _ => loop lines (i+1) st
    | _, some (s, cm, k) =>
        match parseOp s ws cm k with
        | some op =>
            let (s', out) := doOp s op
            IO.println out
            loop lines (i+1) (some (s', cm, k))
        | none =>
            IO.println (line "bad" s s.trace.length)
            loop lines (i+1) st
    | _, none => loop lines (i+1) st
  else return ()

def main : IO Unit := do
  let lines ← readLines (← IO.getStdin)
  loop lines 0 none
