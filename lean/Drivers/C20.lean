import CoclsModel.Proto
import CoclsModel.Alloc
/-! Driver for C20: runs the allocation-event model on the harness input (same grammar as harness/h_alloc.cpp). -/
open Cocls Cocls.Proto Cocls.Alloc

def fuel : Nat := 1000000

def catText : Cat → String
  | .frame => "frame" | .growth => "growth" | .rq => "ready-queue-node" | .other => "other"

def tokText : Tok → String
  | .act j t => s!"c{j}:{t}"
  | .cb i => s!"cb{i}"
  | .alloc c n _ => s!"a:{catText c}+{n}"
  | .free c n => s!"f:{catText c}-{n}"

def parseKind : Char → Option Kind
  | 'v' => some .v | 'e' => some .e | 'd' => some .d | _ => none

def natOf (s : String) (bound : Nat) : Option Nat :=
  if s.length > 6 then none else
  match s.toNat? with
  | some n => if n < bound then some n else none
  | none => none

def parseAct (t : String) : Option Act :=
  match t.toList with
  | ['p'] => some .park
  | ['y'] => some .pause
  | 'a' :: r => (natOf (String.ofList r) maxId).map .await
  | 'g' :: r => (natOf (String.ofList r) maxId).map .gstep
  | 'G' :: r => (natOf (String.ofList r) maxId).map .gstepAw
  | 'l' :: r => (natOf (String.ofList r) nMx).map .lock
  | 'u' :: r => (natOf (String.ofList r) nMx).map .unlock
  | 'U' :: r => (natOf (String.ofList r) nMx).map .unlockAw
  | 'r' :: r =>
      match r.getLast?, natOf (String.ofList r.dropLast) maxId with
      | some c, some i => (parseKind c).map (Act.res i)
      | _, _ => none
  | 'R' :: r =>
      match r.getLast?, natOf (String.ofList r.dropLast) maxId with
      | some c, some i => (parseKind c).map (Act.resAw i)
      | _, _ => none
  | _ => none

def parseScript (t : String) : Option (List Act) :=
  if t == "-" then some [] else (t.splitOn ",").mapM parseAct

def parseHeap : String → Option Bool
  | "H" => some true | "N" => some false | _ => none

def parseOp (ws : List String) : Option Op :=
  match ws with
  | ["fut", i] => (natOf i maxId).map .fut
  | ["res", i, "x"] => (natOf i maxId).map .resX
  | ["res", i, k] =>
      match natOf i maxId, k.toList with
      | some i, [c] => (parseKind c).map (Op.res i)
      | _, _ => none
  | ["cb", i] => (natOf i maxId).map .cb
  | ["bs", i] => (natOf i maxId).map .bs
  | ["bw", i] => (natOf i maxId).map .bw
  | ["del", i] => (natOf i maxId).map .del
  | ["co", j, h, b, sc] =>
      match natOf j maxId, parseHeap h, parseScript sc with
      | some j, some h, some sc =>
          if b == "-" then some (.co j h none sc)
          else (natOf b maxId).map (fun i => Op.co j h (some i) sc)
      | _, _, _ => none
  | ["tl", m] => (natOf m nMx).map .tl
  | ["ul", m] => (natOf m nMx).map .ul
  | ["sa", k, j] =>
      match natOf k nSp, natOf j maxId with
      | some k, some j => some (.sa k j)
      | _, _ => none
  | ["sp", k] => (natOf k nSp).map .sp
  | ["sf", k] => (natOf k nSp).map .sf
  | ["gen", g, h, n] =>
      match natOf g maxId, parseHeap h, natOf n 1000000 with
      | some g, some h, some n => some (.gen g h n)
      | _, _, _ => none
  | ["gs", g, "n"] => (natOf g maxId).map (fun g => Op.gs g false)
  | ["gs", g, "f"] => (natOf g maxId).map (fun g => Op.gs g true)
  | ["gd", g] => (natOf g maxId).map .gd
  | _ => none

def doOp (s : State) (op : Op) : State × String :=
  let n0 := s.out.length
  let s' := step fuel s op
  let toks := ((s'.out.take (s'.out.length - n0)).reverse).map tokText
  let head := match op with
    | .fin => s!"left={leftOf s'}"
    | _ => headOf fuel s op
  (s', withEvents head toks)

partial def loop (lines : Array String) (i : Nat) (st : Option State) : IO Unit := do
  if h : i < lines.size then
    let ws := words lines[i]
    match ws, st with
    | ("case" :: id :: "alloc" :: _ :: thr :: _), _ =>
        IO.println s!"case {id}"
        loop lines (i+1) (some (init (thr == "f")))
    | ["end"], some s =>
        let (_, out) := doOp s Op.fin
        IO.println ("end " ++ out)
        loop lines (i+1) none
    | (w :: _), some s =>
        match parseOp ws with
        | some op =>
            let (s', out) := doOp s op
            IO.println (w ++ " " ++ out)
            loop lines (i+1) (some s')
        | none => IO.println (w ++ " bad-op"); loop lines (i+1) st
    | _, _ => loop lines (i+1) st
  else return ()

def main : IO Unit := do
  let lines ← readLines (← IO.getStdin)
  loop lines 0 none
