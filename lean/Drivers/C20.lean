import CoclsModel.Proto
import CoclsModel.Alloc
/-! Driver for C20: runs the allocation-event model on the harness input (same grammar as harness/h_alloc.cpp). -/
open Cocls Cocls.Proto Cocls.Alloc

def fuel : Nat := 1000000

def catText : Cat → String
  | .frame => "frame" | .growth => "growth" | .rgrowth => "resolve-suspend-point-growth" | .rq => "ready-queue-node" | .other => "other"

def kindText : Kind → String
  | .v => "v" | .e => "e" | .d => "d"

def actText : Act → String
  | .await i => s!"a{i}"
  | .res i k => s!"r{i}{kindText k}"
  | .resAw i k => s!"R{i}{kindText k}"
  | .lock m => s!"l{m}"
  | .unlock m => s!"u{m}"
  | .unlockAw m => s!"U{m}"
  | .park => "p"
  | .pause => "y"
  | .gstep g => s!"g{g}"
  | .gstepAw g => s!"G{g}"
  | .resumed i => s!"a{i}!"

def labelText : Label → String
  | .did a => actText a
  | .stepped a (some v) => s!"{actText a}={v}"
  | .stepped a none => s!"{actText a}=done"
  | .nogen a => s!"{actText a}=none"
  | .fin => "end"

def tokText : Tok → String
  | .act j l => s!"c{j}:{labelText l}"
  | .cb i => s!"cb{i}"
  | .alloc c n _ => s!"a:{catText c}+{n}"
  | .free c n => s!"f:{catText c}-{n}"
  | .thrown (some j) _ => s!"a:exception+1 c{j}:caught"
  | .thrown none _ => "a:exception+1 m:caught"

def outcomeText : Outcome → String
  | .none => "pending"
  | .value n => s!"v:{n}"
  | .exc => "exc"
  | .canceled => "canceled"

/-- the head word(s) of the output line of an operation, computed on the state *before* the operation -/
def headOf (s : State) : Op → String
  | .fut i => if (s.futs i).existed then "skip" else "ok"
  | .res i k =>
      if (s.futs i).existed then s!"{boolStr (!(s.futs i).claimed)} n={(resolve s i k).tmp.handles.length}" else "skip"
  | .resX i => if (s.futs i).existed then s!"{boolStr (!(s.futs i).claimed)} n=-" else "skip"
  | .cb i => if (s.futs i).alive then (if (s.futs i).ready then "ready" else "sub") else "skip"
  | .bs i => if (s.futs i).alive then (if (s.futs i).ready then "ready" else "sub") else "skip"
  | .bw i => if (s.futs i).alive && (s.futs i).ready then outcomeText (s.futs i).outcome else "skip"
  | .del i => if (s.futs i).alive && (s.futs i).ready then "ok" else "skip"
  | .co j _ bind _ =>
      if (s.cos j).st = .unborn && bindOk s bind then
        (match bind with
         | some i => if (s.futs i).claimed then "unclaimed" else "ok"
         | none => "ok")
      else "skip"
  | .tl m => if (s.mxs m).owner = .main then "skip" else boolStr ((s.mxs m).owner = .free)
  | .ul m => if (s.mxs m).owner = .main then s!"n={(handOver s m none).tmp.handles.length}" else "skip"
  | .sa k j => if (s.cos j).st = .parked then s!"n={(s.sps k).handles.length + 1}" else "skip"
  | .sp k => if (s.sps k).handles.isEmpty then "none" else "ok"
  | .sf k => s!"n={(s.sps k).handles.length}"
  | .sm k k2 =>
      if k = k2 then s!"n={(s.sps k).handles.length}" else s!"n={(s.sps k).handles.length + (s.sps k2).handles.length}"
  | .bd i _ => if (s.futs i).existed && (s.futs i).bnd.isNone then "ok" else "skip"
  | .bi i =>
      match (s.futs i).bnd with
      | none => "skip"
      | some true => s!"1 n={(settle s i (.value (100 + i))).tmp.handles.length}"
      | some false => "0 n=0"
  | .bx i => if (s.futs i).bnd.isSome then "ok" else "skip"
  | .rm k i kd =>
      if (s.futs i).existed then
        s!"{boolStr (!(s.futs i).claimed)} n={(s.sps k).handles.length + (resolve s i kd).tmp.handles.length}"
      else "skip"
  | .gen g _ _ => if (s.gens g).exist then "skip" else "ok"
  | .gs g _ =>
      if (s.gens g).exist then (match (genStep (s.gens g)).2 with | some v => s!"v:{v}" | none => "done") else "skip"
  | .gr g => if (s.gens g).exist then s!"items={genLeft (s.gens g)}" else "skip"
  | .gd g => if (s.gens g).exist then "ok" else "skip"
  | .fin => "left"

def parseKind : Char → Option Kind
  | 'v' => some .v | 'e' => some .e | 'd' => some .d | _ => none

def natOf (s : String) (bound : Nat) : Option Nat :=
  if s.length > 6 then none else
  match s.toNat? with
  | some n => if n < bound then some n else none
  | none => none

def parseAct (t : String) : Option Act :=
  match t.toList with
  | ['p'] => some .park
  | ['y'] => some .pause
  | 'a' :: r => (natOf (String.ofList r) maxId).map .await
  | 'g' :: r => (natOf (String.ofList r) maxId).map .gstep
  | 'G' :: r => (natOf (String.ofList r) maxId).map .gstepAw
  | 'l' :: r => (natOf (String.ofList r) nMx).map .lock
  | 'u' :: r => (natOf (String.ofList r) nMx).map .unlock
  | 'U' :: r => (natOf (String.ofList r) nMx).map .unlockAw
  | 'r' :: r =>
      match r.getLast?, natOf (String.ofList r.dropLast) maxId with
      | some c, some i => (parseKind c).map (Act.res i)
      | _, _ => none
  | 'R' :: r =>
      match r.getLast?, natOf (String.ofList r.dropLast) maxId with
      | some c, some i => (parseKind c).map (Act.resAw i)
      | _, _ => none
  | _ => none

def parseScript (t : String) : Option (List Act) :=
  if t == "-" then some [] else (t.splitOn ",").mapM parseAct

def parseHeap : String → Option Bool
  | "H" => some true | "N" => some false | _ => none

def parseOp (ws : List String) : Option Op :=
  match ws with
  | ["fut", i] => (natOf i maxId).map .fut
  | ["res", i, "x"] => (natOf i maxId).map .resX
  | ["res", i, k] =>
      match natOf i maxId, k.toList with
      | some i, [c] => (parseKind c).map (Op.res i)
      | _, _ => none
  | ["cb", i] => (natOf i maxId).map .cb
  | ["bs", i] => (natOf i maxId).map .bs
  | ["bt", i] => (natOf i maxId).map .bs     -- a real blocked thread: the same awaiter, put in the chain by `future::sync()`
  | ["bw", i] => (natOf i maxId).map .bw
  | ["del", i] => (natOf i maxId).map .del
  | ["co", j, h, b, sc] =>
      match natOf j maxId, parseHeap h, parseScript sc with
      | some j, some h, some sc =>
          if b == "-" then some (.co j h none sc)
          else (natOf b maxId).map (fun i => Op.co j h (some i) sc)
      | _, _, _ => none
  | ["tl", m] => (natOf m nMx).map .tl
  | ["ul", m] => (natOf m nMx).map .ul
  | ["sa", k, j] =>
      match natOf k nSp, natOf j maxId with
      | some k, some j => some (.sa k j)
      | _, _ => none
  | ["sp", k] => (natOf k nSp).map .sp
  | ["sf", k] => (natOf k nSp).map .sf
  | ["sm", k, k2] =>
      match natOf k nSp, natOf k2 nSp with
      | some k, some k2 => some (.sm k k2)
      | _, _ => none
  | ["sg", k, k2] =>                          -- move-assignment is the same function as `<<`
      match natOf k nSp, natOf k2 nSp with
      | some k, some k2 => some (.sm k k2)
      | _, _ => none
  | ["bd", i, n] =>
      match natOf i maxId, natOf n 1000 with
      | some i, some n => if [4, 32, 48, 64, 200].contains n then some (.bd i n) else none
      | _, _ => none
  | ["bi", i] => (natOf i maxId).map .bi
  | ["bx", i] => (natOf i maxId).map .bx
  | ["rm", k, i, kd] =>
      match natOf k nSp, natOf i maxId, kd.toList with
      | some k, some i, [c] => (parseKind c).map (Op.rm k i)
      | _, _, _ => none
  | ["gen", g, h, n] =>
      match natOf g maxId, parseHeap h, natOf n 1000000 with
      | some g, some h, some n => some (.gen g h n)
      | _, _, _ => none
  | ["gs", g, "n"] => (natOf g maxId).map (fun g => Op.gs g false)
  | ["gs", g, "f"] => (natOf g maxId).map (fun g => Op.gs g true)
  | ["gs", g, "b"] => (natOf g maxId).map (fun g => Op.gs g false)   -- `begin() != end()`: begin() is next() converted to bool
  | ["gs", g, "r"] => (natOf g maxId).map .gr
  | ["gd", g] => (natOf g maxId).map .gd
  | _ => none

def doOp (s : State) (op : Op) : State × String :=
  let n0 := s.out.length
  let s' := step fuel s op
  let toks := ((s'.out.take (s'.out.length - n0)).reverse).map tokText
  let head := match op with
    | .fin => s!"left={leftOf s'}"
    | _ => headOf s op
  (s', withEvents head toks)

partial def loop (lines : Array String) (i : Nat) (st : Option State) : IO Unit := do
  if h : i < lines.size then
    let ws := words lines[i]
    match ws, st with
    | ("case" :: id :: "alloc" :: _ :: thr :: _), _ =>
        IO.println s!"case {id}"
        loop lines (i+1) (some (init (thr == "f")))
    | ["end"], some s =>
        let (_, out) := doOp s Op.fin
        IO.println ("end " ++ out)
        loop lines (i+1) none
    | (w :: _), some s =>
        match parseOp ws with
        | some op =>
            let (s', out) := doOp s op
            IO.println (w ++ " " ++ out)
            loop lines (i+1) (some s')
        | none => IO.println (w ++ " bad-op"); loop lines (i+1) st
    | _, _ => loop lines (i+1) st
  else return ()

def main : IO Unit := do
  let lines ← readLines (← IO.getStdin)
  loop lines 0 none
