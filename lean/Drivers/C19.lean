import CoclsModel.Proto
import CoclsModel.Storage
import CoclsModel.StorageMt
import CoclsModel.StorageSel
/-! Driver for C19: runs the storage-policy models on the harness input (same grammar as harness/h_storage.cpp).

`case <id> seq <policy> ex=<n> fs=<s0,...,s7> [p=<param>]`  — ops `alloc k sz | coro k kind | cdrop k kind |
free id | fin id | kill id | newobj | bufset n`, `end`;
`case <id> sel` — ops `coro <shape> <ids> <n> <sz> <t> | fin id | kill id`, `end` (which argument selects the storage);
`case <id> sched <nthreads>` — ops `<tid> alloc sz | <tid> free id | <tid> go`, `end`. -/
open Cocls Cocls.Proto Cocls.Storage

def blkStr : Blk → String
  | Blk.null => "null"
  | Blk.heap b => s!"b{b}+0"
  | Blk.ext k => s!"x{k}+0"

def evStr : HEv → String
  | HEv.new b sz => s!"new:b{b}:{sz}"
  | HEv.del b => s!"del:b{b}"

def line (head : String) (before after : Heap) : String :=
  withEvents head ((after.log.drop before.log.length).map evStr)

def kvArg (ws : List String) (key : String) : Option String :=
  (ws.filterMap (fun w => if w.startsWith (key ++ "=") then some (w.drop (key.length + 1)).toString else none)).head?

def parsePolicy (name : String) (p : Nat) (a : Nat) : Option Policy :=
  match name with
  | "static" => some (Policy.static (if p ≤ 64 then 64 else if p ≤ 256 then 256 else 2048) (a != 0))
  | "default" => some Policy.default
  | "reusable" => some Policy.reusable
  | "mtsafe" => some Policy.mtsafe
  | "stack" => some (Policy.stack p)
  | "placement" => some (Policy.placement p)
  | "buffer" => some (Policy.buffer (if p = 1 || p = 3 || p = 4 || p = 12 || p = 24 then p else 8))
  | _ => none

structure SeqSt where
  s : State
  fs : List Nat
  coros : List Nat := []     -- ids of frames that belong to real coroutines

/-- buffer policy: the vector's `size()` in bytes after the request (the user's buffer, not the capacity) -/
def bszTok (s : State) : String :=
  match s.cfg.pol with
  | .buffer i => s!" bsz={s.vsize * i}"
  | _ => ""

def exA (s : State) (sz : Nat) : String := if s.cfg.extra > 0 then s!" ex=+1-0@{sz}:ok" else ""
def exF (s : State) (sz : Nat) : String := if s.cfg.extra > 0 then s!" ex=+0-1@{sz}:ok" else ""

def seqFree (q : SeqSt) (id : Nat) (kill : Bool) : SeqSt × String :=
  match q.s.frames.find? (fun f => f.id == id) with
  | none => (q, "skip")
  | some f =>
      let (s', _) := step q.s (Op.free id)
      let head :=
        if q.coros.contains id then
          (if kill then s!"kill#{id} cn=ok" else s!"fin#{id} cn=ok body=ok") ++ " freed=ok" ++ exF q.s f.sz
        else s!"free#{id} cn=ok" ++ exF q.s f.sz
      ({ q with s := s' }, line head q.s.heap s'.heap)

/-- reusable / placement / buffer serve one frame at a time (the caller's contract); a request that breaks it — only
shrinking produces one — is skipped by harness and driver alike -/
def singleFrame (p : Policy) : Bool :=
  match p with
  | .reusable => true
  | .placement _ => true
  | .buffer _ => true
  | _ => false

def seqOp (q : SeqSt) (ws : List String) : SeqSt × String :=
  if singleFrame q.s.cfg.pol && !q.s.frames.isEmpty && (ws.head? == some "alloc" || ws.head? == some "coro" || ws.head? == some "cdrop" || ws.head? == some "cstart" || ws.head? == some "athrow" || ws.head? == some "cthrow" || ws.head? == some "afail" || ws.head? == some "cfail") then
    (q, "skip")
  else
  match ws with
  | ["alloc", k, sz] =>
      match k.toNat?, sz.toNat? with
      | some k, some sz =>
          match step q.s (Op.alloc k sz) with
          | (s', Res.alloc id blk) =>
              ({ q with s := s' }, line (s!"alloc#{id} sz={sz}{bszTok s'} at={blkStr blk}" ++ exA q.s sz) q.s.heap s'.heap)
          | (_, Res.rejected) => (q, s!"assert sz={sz}")
          | _ => (q, "skip")
      | _, _ => (q, "skip")
  | ["free", id] => match id.toNat? with | some id => seqFree q id false | none => (q, "skip")
  | ["fin", id] => match id.toNat? with | some id => seqFree q id false | none => (q, "skip")
  | ["kill", id] => match id.toNat? with | some id => seqFree q id true | none => (q, "skip")
  | [thr, k, v] =>
      -- the factory of the extra object throws: raw (`athrow k sz`) or while a coroutine is created (`cthrow k kind`)
      if (thr == "athrow" || thr == "cthrow") && q.s.cfg.extra > 0 then
        match k.toNat?, v.toNat? with
        | some k, some v =>
            let sz := if thr == "athrow" then v else q.fs.getD (v % 8) 0
            match step q.s (Op.allocThrow k sz) with
            | (s', Res.unit) => ({ q with s := s' }, line s!"{thr} sz={sz} thrown=1 ex=+0-0" q.s.heap s'.heap)
            | _ => (q, "skip")
        | _, _ => (q, "skip")
      else if thr == "afail" || thr == "cfail" then
        -- the request's `operator new` (if the policy calls it at all) throws `bad_alloc`; otherwise an ordinary request
        match k.toNat?, v.toNat? with
        | some k, some v =>
            let sz := if thr == "afail" then v else q.fs.getD (v % 8) 0
            match step q.s (Op.allocFail k sz) with
            | (s', Res.failed) =>
                -- the failing `operator new` is an event of the trace but not of the model's heap: its size is what the
                -- policy asks for
                let asked := match q.s.cfg.pol with
                  | .buffer i =>
                      (q.s.vsize + max q.s.vsize ((need q.s.cfg sz + i - 1) / i - q.s.vsize)) * i
                  | _ => need q.s.cfg sz
                let l := line s!"{thr} sz={sz} thrown=1" q.s.heap s'.heap
                ({ q with s := s' }, if l.contains ';' then l ++ s!" fail:{asked}" else l ++ s!" ; fail:{asked}")
            | (s', Res.alloc id blk) =>
                if thr == "afail" then
                  ({ q with s := s' }, line (s!"alloc#{id} sz={sz}{bszTok s'} at={blkStr blk}" ++ exA q.s sz) q.s.heap s'.heap)
                else
                  ({ q with s := s', coros := id :: q.coros },
                   line (s!"coro#{id} sz={sz}{bszTok s'} at={blkStr blk} in=1" ++ exA q.s sz) q.s.heap s'.heap)
            | (_, Res.rejected) => (q, s!"assert sz={sz}")
            | _ => (q, "skip")
        | _, _ => (q, "skip")
      else if thr == "coro" || thr == "cdrop" then
        match k.toNat?, v.toNat? with
        | some k, some kind =>
            let sz := q.fs.getD (kind % 8) 0
            match step q.s (Op.alloc k sz) with
            | (s', Res.alloc id blk) =>
                if thr == "coro" then
                  ({ q with s := s', coros := id :: q.coros },
                   line (s!"coro#{id} sz={sz}{bszTok s'} at={blkStr blk} in=1" ++ exA q.s sz) q.s.heap s'.heap)
                else
                  let (s'', _) := step s' (Op.free id)
                  ({ q with s := s'' },
                   line (s!"cdrop#{id} sz={sz}{bszTok s'} at={blkStr blk}" ++ exA q.s sz ++ " freed=ok" ++ exF q.s sz) q.s.heap s''.heap)
            | (_, Res.rejected) => (q, s!"assert sz={sz}")
            | _ => (q, "skip")
        | _, _ => (q, "skip")
      else (q, "skip")
  | ["cstart", k, kind, _mode] =>
      -- `async::start(promise)` with an unclaimable promise: the coroutine stays with the async object, which releases it
      match k.toNat?, kind.toNat? with
      | some k, some kind =>
          let sz := q.fs.getD (kind % 8) 0
          match step q.s (Op.alloc k sz) with
          | (s', Res.alloc id blk) =>
              let (s'', _) := step s' (Op.free id)
              ({ q with s := s'' },
               line (s!"cstart#{id} sz={sz}{bszTok s'} at={blkStr blk}" ++ exA q.s sz ++ " freed=ok" ++ exF q.s sz ++ " started=0") q.s.heap s''.heap)
          | (_, Res.rejected) => (q, s!"assert sz={sz}")
          | _ => (q, "skip")
      | _, _ => (q, "skip")
  | [mv] =>
      -- moves of a plain `reusable_storage`: `mvctor` / `mvassign` are spellings of `moveOut`, `mvself` does nothing
      if q.s.cfg.pol == Policy.reusable && q.s.cfg.extra == 0 &&
          (mv == "mvctor" || mv == "mvassign" || mv == "mvself" || (mv == "swapobj" && q.s.frames.isEmpty)) then
        let s' := if mv == "mvself" then q.s else if mv == "swapobj" then (step q.s Op.swapobj).1 else (step q.s Op.moveOut).1
        ({ q with s := s' }, line s!"{mv} cap={s'.cap} ocap={s'.ocap}" q.s.heap s'.heap)
      else if mv == "newobj" then
        match step q.s Op.newobj with
        | (s', Res.obj k n) => ({ q with s := s' }, s!"obj#{k} size={n}")
        | _ => (q, "skip")
      else (q, "skip")
  | ["bufset", n] =>
      match n.toNat? with
      | some n =>
          match step q.s (Op.bufset n) with
          | (s', Res.unit) => ({ q with s := s' }, line s!"bufset {s'.vsize}" q.s.heap s'.heap)
          | _ => (q, "skip")
      | none => (q, "skip")
  | _ => (q, "skip")

def seqEnd (q : SeqSt) : String :=
  let ids := (q.s.frames.map (·.id)).mergeSort (· ≤ ·)
  let s1 := ids.foldl (fun s id => (step s (Op.free id)).1) q.s
  let s2 := (step s1 Op.destroy).1
  line s!"end live={s2.heap.live.length} exlive={if s2.cfg.extra > 0 then s2.frames.length else 0} exbad=0" q.s.heap s2.heap

/-! sel cases: which argument of the coroutine selects the storage -/

def selShapes : List String :=
  ["f:S", "f:SS", "f:D", "f:DS", "f:DSS", "f:SD", "f:OS", "f:OD", "f:SO", "m:S", "m:SS", "m:D", "m:DS", "m:SD",
   "d:", "d:O", "d:S", "d:SS", "d:SO", "l:S", "l:DS"]

/-- the argument list `operator new` sees for a coroutine of this shape: `*this` for members and lambdas, the declared
parameters, the trailing `frame_rec *` of every harness coroutine; `none` when the ids do not match the shape -/
def selArgs (shape : String) (ids : List Nat) : Option (List StorageSel.Arg) :=
  if !selShapes.contains shape then none else
  match shape.splitOn ":" with
  | [entry, pat] =>
      let (pre, ids) : List StorageSel.Arg × Option (List Nat) :=
        if entry == "d" then
          match ids with
          | i :: r => ([StorageSel.Arg.derived (2 + i % 2)], some r)
          | [] => ([], none)
        else if entry == "f" then ([], some ids) else ([StorageSel.Arg.other], some ids)
      match ids with
      | none => none
      | some ids =>
          let rec go (cs : List Char) (ids : List Nat) (acc : List StorageSel.Arg) : Option (List StorageSel.Arg) :=
            match cs, ids with
            | [], [] => some (acc ++ [StorageSel.Arg.other])
            | [], _ :: _ => none
            | 'O' :: cs, ids => go cs ids (acc ++ [StorageSel.Arg.other])
            | 'S' :: cs, i :: ids => go cs ids (acc ++ [StorageSel.Arg.stor (i % 2)])
            | 'D' :: cs, i :: ids => go cs ids (acc ++ [StorageSel.Arg.derived (2 + i % 2)])
            | _, _ => none
          go pat.toList ids pre
  | _ => none

structure SelSt where
  s : StorageSel.State := {}
  poisoned : Bool := false

def selOp (q : SelSt) (ws : List String) : SelSt × String :=
  if q.poisoned then (q, "poisoned") else
  match ws with
  | ["coro", shape, ids, _n, sz, t] =>
      let idl := if ids == "-" then some [] else
        (ids.splitOn ",").foldr (fun w acc => match w.toNat?, acc with | some n, some l => some ((n % 4) :: l) | _, _ => none) (some [])
      match idl.bind (selArgs shape), sz.toNat?, t.toNat? with
      | some args, some sz, some t =>
          if q.s.frames.any (fun f => f.obj == t % 4) then (q, "skip") else
          match StorageSel.stepCoro q.s args sz with
          | (s', StorageSel.Res.coro id k blk) =>
              if q.s.frames.any (fun f => f.obj == k) then
                -- the storage hands its block to a second frame (contract broken by the caller): the harness stops the case
                let grown := sz > q.s.cap k
                let s1 := StorageSel.rsAlloc q.s k sz
                ({ s := { s1 with nextFrame := s1.nextFrame + 1 }, poisoned := true },
                 line (s!"coro#{id} sz={sz} sel={k} at={blkStr blk} BUSY" ++ (if !grown && sz > 0 then " OVERLAP" else "")) q.s.heap s1.heap)
              else
                ({ q with s := s' }, line s!"coro#{id} sz={sz} sel={k} at={blkStr blk} in=1" q.s.heap s'.heap)
          | _ => (q, "skip")
      | _, _, _ => (q, "skip")
  | [how, id] =>
      if how == "fin" || how == "kill" then
        match id.toNat? with
        | some id =>
            match StorageSel.stepFree q.s id with
            | (s', StorageSel.Res.free _) =>
                ({ q with s := s' }, if how == "kill" then s!"kill#{id} cn=ok freed=ok" else s!"fin#{id} cn=ok body=ok freed=ok")
            | _ => (q, "skip")
        | none => (q, "skip")
      else (q, "skip")
  | _ => (q, "skip")

def selEnd (q : SelSt) : String :=
  let s1 := [0, 1, 2, 3].foldl (fun s k => (StorageSel.stepDestroy s k).1) { q.s with frames := [] }
  line s!"end live={s1.heap.live.length}" q.s.heap s1.heap

/-! sched cases -/

def mtLine (head : String) (before after : Heap) : String := line head before after

def resStr : Mt.Res → String
  | Mt.Res.paused w => s!"paused@{w}"
  | Mt.Res.done id blk => s!"done f{id} at={blkStr blk}"
  | Mt.Res.freed id => s!"freed f{id} cn=ok"
  | Mt.Res.skip => "skip"
  | Mt.Res.failed id => s!"failed f{id}"

def schedOp (s : Mt.State) (nt : Nat) (ws : List String) : Mt.State × String :=
  match ws with
  | t :: rest =>
      match t.toNat? with
      | some t =>
          if t ≥ nt || rest.isEmpty then (s, "skip") else
          let head := s!"t{t} "
          if s.pc t != Mt.Pc.idle then
            -- `fail` counts only when the thread is about to call `operator new`
            let aboutNew := match s.pc t with
              | Mt.Pc.needNew _ _ => true
              | Mt.Pc.needPriv _ _ => true
              | _ => false
            if rest.head? == some "fail" && aboutNew then
              let (s', r) := Mt.stepGoFail s t
              let sz := match s.pc t with
                | Mt.Pc.needNew _ z => z + 8
                | Mt.Pc.needPriv _ z => z + 8
                | _ => 0
              let l := mtLine (head ++ "fail " ++ resStr r) s.heap s'.heap
              (s', if l.contains ';' then l ++ s!" fail:{sz}" else l ++ s!" ; fail:{sz}")
            else
            let (s', r) := Mt.stepGo s t
            (s', mtLine (head ++ "go " ++ resStr r) s.heap s'.heap)
          else
            match rest with
            | ["alloc", sz] =>
                match sz.toNat? with
                | some sz =>
                    let (s', r) := Mt.step s t (Mt.Act.alloc sz)
                    (s', mtLine (head ++ "alloc " ++ resStr r) s.heap s'.heap)
                | none => (s, head ++ "skip")
            | ["free", id] =>
                match id.toNat? with
                | some id =>
                    match Mt.step s t (Mt.Act.free id) with
                    | (s', Mt.Res.freed i) => (s', mtLine (head ++ "free " ++ resStr (Mt.Res.freed i)) s.heap s'.heap)
                    | _ => (s, head ++ "skip")
                | none => (s, head ++ "skip")
            | _ => (s, head ++ "skip")
      | none => (s, "skip")
  | [] => (s, "skip")

def finishThread (s : Mt.State) (t : Nat) : Nat → Mt.State
  | 0 => s
  | n + 1 => if s.pc t == Mt.Pc.idle then s else finishThread (Mt.stepGo s t).1 t n

def schedEnd (s : Mt.State) (nt : Nat) : String :=
  let s1 := (List.range nt).foldl (fun s t => finishThread s t 6) s
  let ids := (s1.frames.map (·.id)).mergeSort (· ≤ ·)
  let s2 := ids.foldl (fun s id => (Mt.stepFree s id).1) s1
  let h := s2.heap.delOpt s2.ptr
  line s!"end live={h.live.length}" s.heap h

inductive Mode where
  | none
  | seq (q : SeqSt)
  | sched (s : Mt.State) (nt : Nat)
  | sel (q : SelSt)
  | swallow

partial def loop (lines : Array String) (i : Nat) (m : Mode) : IO Unit := do
  if h : i < lines.size then
    let ws := words lines[i]
    match ws, m with
    | ("case" :: id :: "seq" :: pol :: rest), _ =>
        IO.println s!"case {id}"
        let p := ((kvArg rest "p").bind String.toNat?).getD 0
        let a := ((kvArg rest "a").bind String.toNat?).getD 1
        let ex := ((kvArg rest "ex").bind String.toNat?).getD 0
        let fs := ((kvArg rest "fs").getD "").splitOn "," |>.filterMap String.toNat?
        match parsePolicy pol p a with
        | some pl => loop lines (i+1) (Mode.seq { s := init { pol := pl, extra := ex }, fs := fs })
        | none => IO.println "bad-policy"; loop lines (i+1) Mode.swallow
    | ("case" :: id :: "sel" :: _), _ =>
        IO.println s!"case {id}"
        loop lines (i+1) (Mode.sel {})
    | ("case" :: id :: "sched" :: nt :: _), _ =>
        IO.println s!"case {id}"
        loop lines (i+1) (Mode.sched Mt.init (max 1 (min 8 (nt.toNat?.getD 1))))
    | ("case" :: id :: _), _ =>
        IO.println s!"case {id}"
        IO.println "bad-kind"
        loop lines (i+1) Mode.swallow
    | ["end"], Mode.seq q => IO.println (seqEnd q); loop lines (i+1) Mode.none
    | ["end"], Mode.sched s nt => IO.println (schedEnd s nt); loop lines (i+1) Mode.none
    | ["end"], Mode.sel q => IO.println (selEnd q); loop lines (i+1) Mode.none
    | ["end"], _ => loop lines (i+1) Mode.none
    | [], _ => loop lines (i+1) m
    | _, Mode.seq q =>
        let (q', out) := seqOp q ws
        IO.println out
        loop lines (i+1) (Mode.seq q')
    | _, Mode.sel q =>
        let (q', out) := selOp q ws
        IO.println out
        loop lines (i+1) (Mode.sel q')
    | _, Mode.sched s nt =>
        let (s', out) := schedOp s nt ws
        IO.println out
        loop lines (i+1) (Mode.sched s' nt)
    | _, _ => loop lines (i+1) m
  else return ()

def main : IO Unit := do
  let lines ← readLines (← IO.getStdin)
  loop lines 0 Mode.none
