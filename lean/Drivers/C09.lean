import CoclsModel.Proto
import CoclsModel.Queue
import Drivers.SchedCommon
/-!
Driver for C09: runs the `queue<T>` model (kind `q`) or the `queue<void>` model (kind `vq`) on the harness input
(same grammar as harness/h_queue.cpp, `run_qcase`).

An optional token after the kind selects the template arguments (`q nl|s1|w1|s1w1|w1m`, `vq nl|w1`): `s1` / `w1` make the
item store / the store of parked promises a `primitives::single_item_queue` (capacity 1 in the model: the operation that
would over-fill it is refused, `push full` / `pop full`), `nl` (implied by `s1`, `w1`) is `primitives::no_lock`.

Future-based pops (`pop`) carry the consumer label 0.  `cons n` starts a coroutine consumer (labels 1,2,…) that pops
up to `n` times, re-issuing `pop()` the moment its previous pop was resolved with a value (inside the resumption,
i.e. before the operation that woke it returns) and stopping at the first exception.  The sequential harness has no
second thread, so every in-flight resolution is performed right after the lock region that decided it.

`popthrow` / `cothrow` are a `pop()` (plain call / from a coroutine) during which the hand-over of the item throws;
`q vec` is `queue<std::vector<int>>` with `pushn k v` = the emplace-style `push(k, v)` (model value k*1000+v).
`pushthrow` is a `push` whose item constructor throws (kinds `q` / `sq`; `vq` has no item: `n/a`).

Kinds `sq` / `svq` (harness `run_sched`): scheduled interleavings, see `Drivers/SchedCommon.lean`; this file supplies
the model side (`schedModel`): one lock region = one model step, `deliver` of a paused call = `Op.deliver`.  The
harness numbers the pops in the order in which their lines are read, the model in the order of their lock regions;
`popMap` translates.
-/
open Cocls Cocls.Proto Cocls.Q

/-- the two models behind one interface -/
structure Mach (σ : Type) where
  step : σ → Op → σ × Res
  inflight : σ → List Ev
  completed : σ → List Ev
  alive : σ → Bool

def machQ : Mach Q.State := ⟨Q.step, (·.inflight), (·.completed), (·.alive)⟩
def machV : Mach VQ.State := ⟨VQ.step, (·.inflight), (·.completed), (·.alive)⟩

def outStr : Out → String
  | Out.val it => s!"v:{it.val}"
  | Out.ok => "ok"
  | Out.exc c => s!"exc:{c}"
  | Out.canceled => "canceled"

/-- driver state: model state, coroutine consumers `(label, pops left after the current one)`, next label -/
structure DState (σ : Type) where
  st : σ
  loops : List (Nat × Nat) := []
  nextCons : Nat := 1
  void : Bool := false      -- `vq`: there is no item constructor that could throw
  vec : Bool := false       -- `q vec`: the items are std::vector<int> (value k*1000+v = k copies of v); nothing throws

/-- an event to print: `(pop id, 0 = issued and parked | 1 = resolved, text)` -/
abbrev PEv := Nat × Nat × String

def flush {σ} (m : Mach σ) (s : σ) : Nat → σ
  | 0 => s
  | n + 1 => if (m.inflight s).isEmpty then s else flush m (m.step s (Op.deliver 0)).1 n

/-- a coroutine consumer with `n` pops left calls `pop()` until one parks -/
def consume {σ} (m : Mach σ) (d : DState σ) (c : Nat) (evs : List PEv) : Nat → DState σ × List PEv
  | 0 => (d, evs)
  | n + 1 =>
    match m.step d.st (Op.pop c) with
    | (s', Res.pop id (some o)) =>
        consume m { d with st := s' } c (evs ++ [(id, 1, s!"pop#{id}={outStr o}")]) n
    | (s', Res.pop id none) =>
        ({ d with st := s', loops := (c, n) :: d.loops.filter (·.1 != c) }, evs ++ [(id, 0, s!"pop#{id}+")])
    | _ => (d, evs)

def isValue : Out → Bool
  | Out.val _ => true
  | Out.ok => true
  | _ => false

/-- what the resumed coroutine consumers do with the resolutions that just happened -/
def resume {σ} (m : Mach σ) (d : DState σ) (evs : List PEv) : List Ev → DState σ × List PEv
  | [] => (d, evs)
  | e :: es =>
    if e.pop.cons = 0 then resume m d evs es
    else
      let left := (d.loops.find? (·.1 == e.pop.cons)).map (·.2) |>.getD 0
      let d1 := { d with loops := d.loops.filter (·.1 != e.pop.cons) }
      if isValue e.out && left > 0 then
        let (d2, evs2) := consume m d1 e.pop.cons evs left
        resume m d2 evs2 es
      else resume m d1 evs es

def pevLe (a b : PEv) : Bool := a.1 < b.1 || (a.1 == b.1 && a.2.1 ≤ b.2.1)

def finish (head : String) (evs : List PEv) : String :=
  withEvents head ((evs.mergeSort pevLe).map (·.2.2))

def evOf (e : Ev) : PEv := (e.pop.id, 1, s!"pop#{e.pop.id}={outStr e.out}")

/-- one model operation followed by everything that happens before the real call returns -/
def doOp {σ} (m : Mach σ) (d : DState σ) (op : Op) : DState σ × Res × List PEv :=
  let n0 := (m.completed d.st).length
  let s0 := if op == Op.destroy then flush m d.st ((m.inflight d.st).length + 1) else d.st
  let (s1, r) := m.step s0 op
  let s2 := flush m s1 ((m.inflight s1).length + 1)
  let newEvs := (m.completed s2).drop n0
  let own : Option Nat := match r with
    | Res.pop id (some _) => some id
    | _ => none
  let shown := (newEvs.filter (fun e => some e.pop.id != own)).map evOf
  let (d', evs) := resume m { d with st := s2 } shown newEvs
  (d', r, evs)

def parseOp (ws : List String) : Option Op :=
  match ws with
  | ["push", v] => v.toNat?.map (Op.push 0)
  | ["push"] => some (Op.push 0 0)
  | ["pushthrow"] => some Op.pushthrow
  | ["pop"] => some (Op.pop 0)
  | ["upop", c] => c.toNat?.map Op.upop
  | ["size"] => some Op.size
  | ["empty"] => some Op.empty
  | ["destroy"] => some Op.destroy
  | _ => none

def headOf (op : Op) (r : Res) : String :=
  match r with
  | Res.push _ woke => "push woke=" ++ boolStr woke
  | Res.pop id (some o) => s!"pop#{id} {outStr o}"
  | Res.pop id none => s!"pop#{id} pending"
  | Res.flag b => (match op with
      | Op.upop _ => "upop " ++ boolStr b
      | _ => "empty " ++ boolStr b)
  | Res.num n => s!"size {n}"
  | Res.unit => "destroy"
  | Res.threw => (match op with | Op.popthrow _ => "popthrow threw" | _ => "pushthrow threw")
  | Res.full => (match op with
      | Op.pop _ => "pop full"
      | Op.popthrow _ => "pop full"
      | Op.pushthrow => "pushthrow full"
      | _ => "push full")
  | Res.bad => "bad-op"

partial def caseLoop {σ} (m : Mach σ) (lines : Array String) (i : Nat) (d : DState σ) : IO Nat := do
  if h : i < lines.size then
    let ws := words lines[i]
    match ws with
    | [] => caseLoop m lines (i+1) d
    | ["end"] =>
        let (_, _, evs) := doOp m d Op.destroy
        IO.println (finish "end" evs)
        return i + 1
    | [kw, n] =>
        -- coroutine consumer / callback consumer: the same behaviour as far as the queue can tell
        if kw == "cons" || kw == "cbcons" then
          match n.toNat? with
          | some n =>
              let (d', evs) := consume m d d.nextCons [] n
              IO.println (finish kw evs)
              caseLoop m lines (i+1) { d' with nextCons := d.nextCons + 1 }
          | none => IO.println "bad-op"; caseLoop m lines (i+1) d
        else
          match parseOp ws with
          | some op =>
              let op := match op with
                | Op.push p v => if d.vec then Op.push p (1000 + v) else op
                | _ => op
              let (d', r, evs) := doOp m d op
              IO.println (finish (headOf op r) evs)
              caseLoop m lines (i+1) d'
          | none => IO.println "bad-op"; caseLoop m lines (i+1) d
    | ["pushn", k, v] =>
        -- emplace-style push(k, v) into queue<std::vector<int>>: one item, k copies of v, whichever path it takes
        match (if d.vec then k.toNat? else none), v.toNat? with
        | some k, some v =>
            let (d', r, evs) := doOp m d (Op.push 0 (k * 1000 + v))
            IO.println (finish (headOf (Op.push 0 0) r) evs)
            caseLoop m lines (i+1) d'
        | _, _ => IO.println "bad-op"; caseLoop m lines (i+1) d
    | ["popthrow"] =>
        if d.void || d.vec then
          IO.println "popthrow n/a"
          caseLoop m lines (i+1) d
        else
          let (d', r, evs) := doOp m d (Op.popthrow 0)
          IO.println (finish (headOf (Op.popthrow 0) r) evs)
          caseLoop m lines (i+1) d'
    | ["cothrow"] =>
        if d.void || d.vec then
          IO.println "cothrow n/a"
          caseLoop m lines (i+1) d
        else
          let c := d.nextCons
          let d1 := { d with nextCons := c + 1 }
          match m.step d.st (Op.popthrow c) with
          | (s', Res.pop id none) =>
              IO.println (finish "cothrow" [(id, 0, s!"pop#{id}+")])
              caseLoop m lines (i+1) { d1 with st := s', loops := (c, 0) :: d1.loops }
          | (s', Res.threw) => IO.println "cothrow threw"; caseLoop m lines (i+1) { d1 with st := s' }
          | (s', Res.full) => IO.println "cothrow full"; caseLoop m lines (i+1) { d1 with st := s' }
          | (s', _) => IO.println "bad-op"; caseLoop m lines (i+1) { d1 with st := s' }
    | ["pushthrow"] =>
        if d.void || d.vec then
          IO.println "pushthrow n/a"      -- the harness does not call anything: no constructor that could throw
          caseLoop m lines (i+1) d
        else
          let (d', r, evs) := doOp m d Op.pushthrow
          IO.println (finish (headOf Op.pushthrow r) evs)
          caseLoop m lines (i+1) d'
    | _ =>
        match parseOp ws with
        | some op =>
            let (d', r, evs) := doOp m d op
            IO.println (finish (headOf op r) evs)
            if op == Op.destroy then
              IO.println "end"
              -- the rest of the case is swallowed
              let mut j := i + 1
              while j < lines.size && words lines[j]! != ["end"] do j := j + 1
              return j + 1
            else caseLoop m lines (i+1) d'
        | none => IO.println "bad-op"; caseLoop m lines (i+1) d
  else return i

/-! ### scheduled kinds -/

structure SSt (σ : Type) where
  st : σ
  popMap : List (Nat × Nat) := []     -- model pop id ↦ harness pop id

def SSt.hid {σ} (s : SSt σ) (mid : Nat) : Nat := (s.popMap.find? (·.1 == mid)).map (·.2) |>.getD mid

def sevOf {σ} (s : SSt σ) (e : Ev) : Sched.SEv :=
  (0, s.hid e.pop.id, s!"pop#{s.hid e.pop.id}={outStr e.out}")

def schedOp (void : Bool) (ws : List String) : Option Op :=
  match ws with
  | ["push", v] => v.toNat?.map (Op.push 0)
  | ["push"] => if void then some (Op.push 0 0) else none
  | ["pushthrow"] => if void then none else some Op.pushthrow
  | ["popthrow"] => if void then none else some (Op.popthrow 0)
  | ["pop"] => some (Op.pop 0)
  | ["upop", c] => c.toNat?.map Op.upop
  | ["size"] => some Op.size
  | ["empty"] => some Op.empty
  | _ => none

def schedModel {σ} (m : Mach σ) (void : Bool) : Sched.Model (SSt σ) where
  issue ws ctr :=
    match schedOp void ws with
    | none => none
    | some (Op.pop _) => some (s!"pop#{ctr.1}", ctr.1, (ctr.1 + 1, ctr.2))
    | some (Op.popthrow _) => some (s!"pop#{ctr.1}", ctr.1, (ctr.1 + 1, ctr.2))   -- the id is used up even if it throws
    | some _ => some (ws.headD "", 0, ctr)
  apply s ws hid :=
    match schedOp void ws with
    | none => { st := s, status := "bad", paused := false, own := none }
    | some op =>
      let (s1, r) := m.step s.st op
      let paused := (m.inflight s1).length > (m.inflight s.st).length
      match r with
      | Res.pop id o =>
          let s' : SSt σ := { st := s1, popMap := (id, hid) :: s.popMap }
          match o with
          | some o => { st := s', status := outStr o, paused := paused, own := some (0, hid, s!"pop#{hid}={outStr o}") }
          | none => { st := s', status := "pending", paused := paused, own := none }
      | Res.push _ woke => { st := { s with st := s1 }, status := boolStr woke, paused := paused, own := none }
      | Res.flag b => { st := { s with st := s1 }, status := boolStr b, paused := paused, own := none }
      | Res.num n => { st := { s with st := s1 }, status := toString n, paused := paused, own := none }
      | Res.threw => { st := { s with st := s1 }, status := "threw", paused := paused, own := none }
      | _ => { st := { s with st := s1 }, status := "bad", paused := paused, own := none }
  deliver s k :=
    match (m.inflight s.st)[k]? with
    | none => (s, [])
    | some e => ({ s with st := (m.step s.st (Op.deliver k)).1 }, [sevOf s e])
  destroy s :=
    let n0 := (m.completed s.st).length
    let s1 := (m.step s.st Op.destroy).1
    ((m.completed s1).drop n0).map (sevOf s)

partial def loop (lines : Array String) (i : Nat) : IO Unit := do
  if h : i < lines.size then
    match words lines[i] with
    | ("case" :: id :: "q" :: cfg) =>
        IO.println s!"case {id}"
        -- configuration token: Queue / CoroQueue = single_item_queue (capacity 1); the Lock argument has no model state
        let (cap, wcap) : Option Nat × Option Nat := match cfg with
          | ["s1"] => (some 1, none)
          | ["w1"] => (none, some 1)
          | ["w1m"] => (none, some 1)
          | ["s1w1"] => (some 1, some 1)
          | _ => (none, none)
        let j ← caseLoop machQ lines (i+1) { st := Q.initCfg cap wcap, vec := cfg == ["vec"] }
        loop lines j
    | ("case" :: id :: "vq" :: cfg) =>
        IO.println s!"case {id}"
        let j ← caseLoop machV lines (i+1) { st := VQ.initCfg (if cfg == ["w1"] then some 1 else none), void := true }
        loop lines j
    | ("case" :: id :: "sq" :: _) =>
        IO.println s!"case {id}"
        let j ← Sched.caseLoop (schedModel machQ false) lines (i+1) { st := { st := Q.init } }
        loop lines j
    | ("case" :: id :: "svq" :: _) =>
        IO.println s!"case {id}"
        let j ← Sched.caseLoop (schedModel machV true) lines (i+1) { st := { st := VQ.init } }
        loop lines j
    | _ => loop lines (i+1)
  else return ()

def main : IO Unit := do
  let lines ← readLines (← IO.getStdin)
  loop lines 0
