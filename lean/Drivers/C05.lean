import CoclsModel.Proto
import CoclsModel.Exec
/-!
Driver for C05: interprets the scripted-coroutine programs of harness/h_exec.cpp on the executor model
(`CoclsModel/Exec.lean`).

Grammar: `case <id> exec <via>` · `a <cid> <act>` (append an act to the script of coroutine cid) ·
`m <act>` (ordinary code performs the act now; everything that runs until control is back in ordinary code
is printed as events `<cid>.<pc>@<depth>`) · `end`.
Acts: `wake:<d|a|r|x|p>:<ids>` `detach:<d|a|r|x|p>:<id>` `gather:<d|a>:<ids>` `park` `parkn` `parkp` `wakep:<id>`
`pause` `swap` `start:<id>` `startc:<id>` `spawn:<id>` `call:<id>` `join:<id>` `hop` `hopc` `end` `enter` `leave`
`leavex` `gnext:<id>` `gyield` `awaits:<ids>:<ids>` (`co_await` of a suspend point that holds the awaiting coroutine's own
handle between the handles of the two id lists).  Work handed to other threads (`{w`/`{p` ... `}<active>` in the event list) is run whenever ordinary code is
outside every block, as the harness does.  Mode `x` (suspend point destroyed by stack
unwinding) and `leavex` (the callback of `install_queue_and_call` throws) are `Mode.discard` / `Act.leave` in the
model: `~suspend_point` and `trailer::~trailer` do the same work whether or not an exception is in flight.
-/
open Cocls Cocls.Proto Cocls.Exec

def parseIds (s : String) : List Nat :=
  (s.splitOn ",").filterMap (·.toNat?)

def parseMode (s : String) : Mode :=
  if s == "a" then Mode.await else if s == "p" then Mode.par else Mode.discard

def parseAct (tok : String) : Option Act :=
  match tok.splitOn ":" with
  | ["wake", m, ids] => some (Act.wake (parseIds ids) (parseMode m) false)
  | ["wake", m] => some (Act.wake [] (parseMode m) false)
  | ["detach", m, ids] => some (Act.wake (parseIds ids) (parseMode m) false)
  | ["gather", m, ids] => some (Act.wake (parseIds ids) (if m == "a" then Mode.await else Mode.discard) true)
  | ["gather", m] => some (Act.wake [] (if m == "a" then Mode.await else Mode.discard) true)
  | ["parkp"] => some Act.parkPar
  | ["wakep", d] => d.toNat?.map Act.wakePar
  | ["hop"] => some Act.hop
  | ["hopc"] => some Act.hopCur
  | ["fwait"] => some Act.fwait
  | ["startc", d] => d.toNat?.map (Act.start · true)     -- async::operator()
  | ["spawn", d] => d.toNat?.map (Act.start · false)     -- coroutine type with coro_queue::initial_awaiter
  | ["park"] => some Act.park
  | ["parkn"] => some Act.parkNext
  | ["pause"] => some Act.pause
  | ["swap"] => some Act.pause
  | ["start", d] => d.toNat?.map (Act.start · true)
  | ["call", d] => d.toNat?.map Act.call
  | ["gnext", d] => d.toNat?.map Act.gnext     -- bool(gen.next()) / gen() / gen.next().subscribe(a), by id % 3 in the harness
  | ["gyield"] => some Act.gyield
  | ["awaits", pre, post] => some (Act.awaitSelf (parseIds pre) (parseIds post))
  | ["join", d] => d.toNat?.map Act.join
  | ["end"] => some Act.fin
  | ["enter"] => some Act.enter
  | ["leave"] => some Act.leave
  | ["leavex"] => some Act.leave    -- the callback throws: the trailer runs during unwinding, same effect
  | _ => none

structure Prog where
  scripts : Array (Array Act) := #[]
  pcs : Array Nat := #[]

def Prog.ensure (p : Prog) (c : Nat) : Prog :=
  if c < p.scripts.size then p
  else { scripts := p.scripts ++ Array.replicate (c + 1 - p.scripts.size) #[],
         pcs := p.pcs ++ Array.replicate (c + 1 - p.pcs.size) 0 }

def Prog.add (p : Prog) (c : Nat) (a : Act) : Prog :=
  let p := p.ensure c
  { p with scripts := p.scripts.modify c (·.push a) }

/-- run coroutines until control is back in ordinary code; `fuel` bounds the number of acts -/
def drain (p : Prog) (s : State) (evs : Array String) : Nat → Prog × State × Array String
  | 0 => (p, s, evs.push "FUEL")
  | fuel + 1 =>
    match s.cur with
    | none => (p, s, evs)
    | some c =>
        let p := p.ensure c
        let k := p.pcs[c]!
        let a := (p.scripts[c]!)[k]?.getD Act.fin
        let evs := evs.push s!"{c}.{k}@{depth s}"
        let p := { p with pcs := p.pcs.set! c (k + 1) }
        drain p (step s a) evs fuel

/-- coroutines an act can bring to life (they may have no script line of their own: one act, `co_return`, each) -/
def actWeight : Act → Nat
  | Act.wake cs _ _ => cs.length + 1
  | Act.awaitSelf pre post => pre.length + post.length + 1
  | _ => 2

/-- an upper bound of the number of acts the program can still execute: every act of every script once, plus one `co_return` per
coroutine that has a script or is named by an act (programs with hundreds of script-less coroutines are generated) -/
def fuelOf (p : Prog) : Nat := p.scripts.foldl (fun n sc => sc.foldl (fun m a => m + actWeight a) (n + 2)) 8

/-- the other threads get their turn: every job, oldest first, each to completion (the harness does the same
whenever ordinary code of the main thread is outside every block) -/
def runJobs (p : Prog) (s : State) (evs : Array String) : Nat → Prog × State × Array String
  | 0 => (p, s, evs)
  | n + 1 =>
    match s.jobs with
    | [] => (p, s, evs)
    | (hs, k) :: _ =>
        if s.cur.isSome || s.active || !s.blocks.isEmpty then (p, s, evs.push "JOB-NOT-IDLE")
        else
          let (p, s, e) := drain p (step s Act.job) (evs.push (if k then "{w" else "{p")) (fuelOf p + hs.length)
          runJobs p s (e.push ("}" ++ boolStr s.active)) n

def doMain (p : Prog) (s : State) (a : Act) : Prog × State × Array String :=
  let (p, s, evs) := drain p (step s a) #[] (fuelOf p + actWeight a)
  if s.blocks.isEmpty then runJobs p s evs (fuelOf p) else (p, s, evs)

def countSusp (p : Prog) (s : State) : Nat :=
  (List.range p.scripts.size).foldl (fun n c =>
    match s.st c with
    | St.parked => n + 1
    | St.pparked => n + 1
    | St.yielded => n + 1
    | St.waiting _ => n + 1
    | _ => n) 0

def finish (p : Prog) (s : State) : String :=
  let res := (List.range p.scripts.size).map (fun c => toString (s.runs.count c))
  s!"end a={boolStr s.active} b={boolStr (canBlock s)} q={s.ready.length} susp={countSusp p s} res={joinWith "," res}"

/-- close the blocks that are still open (the harness leaves them when it meets `end`) -/
def closeBlocks (p : Prog) (s : State) (evs : Array String) : Nat → Prog × State × Array String
  | 0 => (p, s, evs)
  | n + 1 =>
    if s.blocks.isEmpty then (p, s, evs)
    else
      let (p, s, e) := doMain p s Act.leave
      closeBlocks p s (evs ++ e) n

partial def loop (lines : Array String) (i : Nat) (st : Option (Prog × State)) : IO Unit := do
  if h : i < lines.size then
    let ws := words lines[i]
    match ws, st with
    | ("case" :: id :: _), _ =>
        IO.println s!"case {id}"
        loop lines (i+1) (some ({}, init))
    | ["end"], some (p, s) =>
        let (p, s, evs) := closeBlocks p s #[] (s.blocks.length + 1)
        let (p, s, evs) := runJobs p s evs (fuelOf p)
        IO.println (withEvents (finish p s) evs.toList)
        loop lines (i+1) none
    | ["a", c, tok], some (p, s) =>
        match c.toNat?, parseAct tok with
        | some c, some a =>
            IO.println "a"
            loop lines (i+1) (some (p.add c a, s))
        | _, _ => IO.println "bad-op"; loop lines (i+1) st
    | ["m", tok], some (p, s) =>
        match parseAct tok with
        | some a =>
            let (p, s, evs) := doMain p s a
            IO.println (withEvents s!"m {tok} a={boolStr s.active} b={boolStr (canBlock s)}" evs.toList)
            loop lines (i+1) (some (p, s))
        | none => IO.println "bad-op"; loop lines (i+1) st
    | _, some _ => IO.println "bad-op"; loop lines (i+1) st
    | _, none => loop lines (i+1) st
  else return ()

def main : IO Unit := do
  let lines ← readLines (← IO.getStdin)
  loop lines 0 none
