import CoclsModel.Proto
import CoclsModel.Callback
/-! Driver for C18: runs the micro-step model of the callback adapters on the scenarios of harness/h_callback.cpp. -/
open Cocls Cocls.Proto Cocls.Callback

structure Fmt where
  srcVoid : Bool
  toVoid : Bool
  alloc : String

def slotStr : Slot → String
  | Slot.null => "null"
  | Slot.node => "ptr"
  | Slot.ready => "ready"

def obsStr (isVoid : Bool) : Obs → String
  | Obs.val v => if isVoid then "v" else s!"v:{v}"
  | Obs.exc c => s!"exc:{c}"
  | Obs.canceled => "canceled"

def evStr (f : Fmt) : Ev → String
  | Ev.opLoadSlot t s => s!"s {t} load slot {slotStr s}"
  | Ev.opCas t ok s => s!"s {t} cas{if ok then "+" else "-"} slot {slotStr s}>ptr"
  | Ev.opXchgOwner t had => s!"s {t} xchg owner {if had then "ptr" else "null"}>null"
  | Ev.opLoadOwner t had => s!"s {t} load owner {if had then "ptr" else "null"}"
  | Ev.opXchgSlot t s => s!"s {t} xchg slot {slotStr s}>ready"
  | Ev.rBlock t => s!"s {t} wait-block reg"
  | Ev.dBlock t => s!"s {t} wait-block resolvers"
  | Ev.fin t => s!"s {t} fin"
  | Ev.alloc => s!"alloc {f.alloc}"
  | Ev.free => s!"free {f.alloc}"
  | Ev.cb o => s!"cb {obsStr f.srcVoid o}"
  | Ev.conv i => match i with
      | some v => s!"conv {v}"
      | none => "conv -"
  | Ev.ret t b => s!"ret t{t} {boolStr b}"
  | Ev.callerCont => "caller-continues"
  | Ev.deadArg => "dead-arg"

def isOpEv : Ev → Bool
  | Ev.alloc => false
  | Ev.free => false
  | Ev.cb _ => false
  | Ev.conv _ => false
  | Ev.ret _ _ => false
  | Ev.callerCont => false
  | Ev.deadArg => false
  | _ => true

def isSlotOp : Ev → Bool
  | Ev.opLoadSlot _ _ => true
  | Ev.opCas _ _ _ => true
  | Ev.opXchgSlot _ _ => true
  | _ => false

def parseRK (ws : List String) : Option RK :=
  match ws with
  | ["value", v] => v.toNat?.map RK.value
  | ["exc", c] => c.toNat?.map RK.exc
  | ["drop"] => some RK.drop
  | _ => none

def parseAdapter : String → Adapter
  | "cbawait" => Adapter.cbAwait
  | "cbref" => Adapter.cbAwait
  | "cbawt" => Adapter.cbAwait
  | "cbwrap" => Adapter.cbAwait
  | "callawt" => Adapter.callAwt
  | "mkprom" => Adapter.mkProm
  | "mkcb" => Adapter.mkCb
  | "discard" => Adapter.discard
  | "conv" => Adapter.conv
  | _ => Adapter.callFn

/-- the baton scheduler's choice: the named thread if enabled, else the next enabled one cyclically -/
def pick (c : Cfg) (n : Nat) (s : State) (want : Option Nat) : Option Nat :=
  match want with
  | some w => ((List.range n).map (fun k => (w + k) % n)).find? (enabled c s)
  | none => (List.range n).find? (enabled c s)

def threadsDone (n : Nat) (s : State) : Bool := (List.range n).all fun i => s.pc i == Pc.done

partial def runSched (c : Cfg) (n : Nat) (f : Fmt) (keep : Ev → Bool) (s : State) (sched : List Nat) (acc : Array String)
    (fuel : Nat) : State × Array String × Bool :=
  if fuel = 0 then (s, acc, true) else
  if threadsDone n s then (s, acc, false) else
  let (want, rest) := match sched with
    | w :: r => (some (w % n), r)
    | [] => (none, [])
  match pick c n s want with
  | none => (s, acc, true)
  | some t =>
    let (s', evs) := astep c s t
    runSched c n f keep s' rest (acc ++ ((evs.filter keep).map (evStr f)).toArray) (fuel - 1)

def outerStr (f : Fmt) : Option OuterRes → String
  | none => "outer pending"
  | some (OuterRes.val v) => (if f.toVoid then "outer v" else s!"outer v:{v}") ++ " hv=1"
  | some (OuterRes.exc c) => s!"outer exc:{c} hv=1"
  | some OuterRes.canceledExc => "outer canceled hv=1"
  | some OuterRes.noValue => "outer canceled hv=0"

/-- one awaited operation (one `round` of the input); `nx` = the `_next` link carried over from the previous operation on
the same helper object; returns the output lines and the link left behind (none = the run deadlocked) -/
def runRound (hdr : List String) (body : List (List String)) (nx : Slot) : List String × Option Slot := Id.run do
  let adapterName := hdr[3]?.getD "cbawait"
  let adapter := parseAdapter adapterName
  let srcVoid := hdr[4]?.getD "int" == "void"
  let allocName := hdr[5]?.getD "heap"
  let toVoid := hdr[7]?.getD "int" == "void"
  let behav := hdr[8]?.getD "ok"
  let f : Fmt := { srcVoid := srcVoid, toVoid := toVoid, alloc := allocName }
  let threads := body.filter (fun w => w.head? == some "g" || w.head? == some "r" || w.head? == some "d")
  let n := threads.length
  let tarr := threads.toArray
  let selfRes : Option RK := match tarr[0]? with
    | some ("g" :: "self" :: rest) => parseRK rest
    | _ => none
  let pre : Option RK := (body.filterMap (fun w => match w with
    | "pre" :: rest => parseRK rest
    | "imm" :: rest => parseRK rest
    | ["fthrow", c] => c.toNat?.map RK.exc     -- the start of the operation throws: its outcome is that exception (`startThrew`)
    | _ => none)).head?
  let startThrew := body.any (fun w => w.head? == some "fthrow")
  let isImm := body.any (fun w => w.head? == some "imm") || startThrew
  let hasD := threads.any (fun w => w.head? == some "d")
  let sched := (body.filter (fun w => w.head? == some "sched")).flatMap (fun w => (w.drop 1).filterMap String.toNat?)
  let rk : Nat → Option RK := fun i => match tarr[i]? with
    | some ("r" :: rest) => parseRK rest
    | _ => none
  let cbThrows : Option Nat := if body.any (fun w => w.head? == some "cbthrow") then some 88 else none
  let inCoro := body.any (fun w => w == ["ctx", "coro"]) && adapterName == "cbawait"
  let cvb := if behav == "throw" then ConvB.throw 77 else if behav == "leave" then ConvB.leave else ConvB.ret
  -- one extra (unscheduled) destructor agent at index n: the controller destroys the promise after the run
  let cfg : Cfg := { adapter := adapter, n := n + 1, rk := rk, pre := pre, selfRes := selfRes, cvb := cvb, srcVoid := srcVoid, cbThrows := cbThrows, startThrew := startThrew, inCoro := inCoro }
  let s0 := initWith cfg nx
  let s0 := if hasD then setPc s0 n Pc.done else s0
  -- `imm`: the factory returns an already resolved future that the harness cannot name: its slot is not traced
  let keep : Ev → Bool := fun e => !(isImm && isSlotOp e)
  let (s1, out, dead) := runSched cfg n f keep s0 sched #[] 100000
  if dead then return (out.toList ++ ["deadlock", "end"], none)
  let mut s := s1
  let mut lines := out
  for _ in [0:1000] do
    if s.pc n == Pc.done then break
    let (s', evs) := astep cfg s n
    s := s'
    lines := lines ++ ((evs.filter (fun e => !isOpEv e)).map (evStr f)).toArray
  lines := lines.push "promise-destroyed"
  if adapter == Adapter.conv then lines := lines.push (outerStr f s.outer)
  lines := lines.push s!"final cb={s.saw.length} conv={s.convIn.length} allocs={s.allocs} frees={s.frees}"
  return (lines.toList, some s.nxt)

/-- split the body at the `round` lines -/
def splitRounds (body : List (List String)) : List (List (List String)) :=
  let r := body.foldl (fun (acc : List (List (List String)) × List (List String)) w =>
    if w == ["round"] then (acc.2.reverse :: acc.1, []) else (acc.1, w :: acc.2)) ([], [])
  (r.2.reverse :: r.1).reverse

def runCase (hdr : List String) (body : List (List String)) : List String := Id.run do
  let mut out : List String := []
  let mut nx := Slot.null
  let mut first := true
  for rd in splitRounds body do
    if !first then out := out ++ ["round"]
    first := false
    let (ls, nx') := runRound hdr rd nx
    out := out ++ ls
    match nx' with
    | none => return out          -- deadlock: `end` already printed
    | some v => nx := v
  return out ++ ["end"]

partial def loop (lines : Array String) (i : Nat) (hdr : List String) (body : List (List String)) : IO Unit := do
  if h : i < lines.size then
    let ws := words lines[i]
    match ws with
    | "case" :: _ :: _ =>
        loop lines (i+1) ws []
    | ["end"] =>
        IO.println s!"case {hdr[1]?.getD "?"}"
        for l in runCase hdr body.reverse do IO.println l
        loop lines (i+1) [] []
    | [] => loop lines (i+1) hdr body
    | _ => loop lines (i+1) hdr (ws :: body)
  else return ()

def main : IO Unit := do
  let lines ← readLines (← IO.getStdin)
  loop lines 0 [] []
