import CoclsModel.Proto
import CoclsModel.Async
import CoclsModel.AsyncRace
/-! Driver for C04: runs the `async<T>` life-cycle model on the harness input (same grammar as harness/h_async.cpp).
After every driver operation the coroutines are stepped until none can move (the real code has flushed its ready
queue / joined its helper thread by then; the result does not depend on the order, only the driver resolves futures). -/
open Cocls Cocls.Proto Cocls.Async

structure DState where
  s : State
  isVoid : Bool
  ids : List Nat := []            -- every instance id mentioned so far
  slots : List (Nat × Bool) := [] -- top-level futures (model id, reported), oldest first
  extRep : List Nat := []         -- external futures already reported
  opFuts : List (Nat × Nat) := [] -- (coroutine, result future of its operation object) for `startop`

def outStr (isVoid : Bool) : Option Outcome → String
  | some (Outcome.val v) => if isVoid then "ok" else s!"v:{v}"
  | some (Outcome.exc c) => s!"exc:{c}"
  | some Outcome.canceled => "canceled"
  | none => "canceled"

def steppable : St → Bool
  | St.scheduled | St.yielded | St.running => true
  | St.resumable _ _ | St.wantAwait _ _ => true
  | _ => false

/-- re-tabulate the two finite maps (pure representation change: same function values on every index) so that
look-ups do not walk an ever growing chain of `upd` closures -/
def compact (ids : List Nat) (s : State) : State :=
  let m := ids.foldl max 0 + 1
  let ca := (Array.range m).map s.co
  let fa := (Array.range s.nextFut).map s.fut
  { s with co := fun c => match ca[c]? with | some x => x | none => s.co c,
           fut := fun f => match fa[f]? with | some x => x | none => s.fut f }

/-- step every coroutine that can move until nothing moves -/
def quiesce (ids : List Nat) (s : State) : Nat → State
  | 0 => s
  | n + 1 =>
      let s' := compact ids (ids.foldl (fun s c => if steppable (s.co c).st then (step s (Op.step c)).1 else s) s)
      if ids.any (fun c => steppable (s'.co c).st) then quiesce ids s' n else s'

def parseAct (w : String) : Option Act :=
  let n := (w.drop 1).toString.toNat?.getD 0
  match w.front with
  | 'c' => some Act.compute
  | 'w' => some (Act.awaitFut n true)
  | 'W' => some (Act.awaitFut n false)
  | 'a' => some (Act.awaitChild n true true)
  | 'A' => some (Act.awaitChild n true false)
  | 's' | 'f' | 'r' => some (Act.awaitChild n false true)
  | 'S' | 'F' | 'R' => some (Act.awaitChild n false false)
  | 'd' => some (Act.detachChild n false)
  | 'D' => some (Act.detachChild n true)
  | 'u' => some (Act.dropChild n)
  | 't' => some (Act.throw n)
  | 'v' => some (Act.ret n)
  | 'k' => some (Act.ret n true)      -- `co_return obj` of a const object: the result is copy-constructed
  | _ => none

/-- result type `pk` of the harness (`struct picky` in h_async.cpp): the converting constructor `picky(long v)` throws
`test_exc(20 + v % 3)` when `v % 4 = 1`, the copy constructor throws `test_exc(30 + v % 3)` when `v % 4 = 2`; the move
constructor never throws -/
def pickyExc (copy : Bool) (v : Nat) : Option Nat :=
  if copy then (if v % 4 == 2 then some (30 + v % 3) else none)
  else (if v % 4 == 1 then some (20 + v % 3) else none)

def actIds : Act → List Nat
  | Act.awaitChild j _ _ => [j]
  | Act.detachChild j _ => [j]
  | Act.dropChild j => [j]
  | _ => []

def addIds (d : DState) (l : List Nat) : DState :=
  { d with ids := d.ids ++ (l.filter (fun i => !d.ids.contains i)).eraseDups }

/-- who is behind future `f`: external future `x<k>` or the child coroutine bound to it -/
def srcStr (d : DState) (f : Nat) : String :=
  if f < d.s.nExt then s!"x{f}"
  else match d.ids.find? (fun j => (d.s.co j).bound == some f) with
    | some j => s!"c{j}"
    | none => "?"

/-- events produced between two model states -/
def events (d0 : DState) (d1 : DState) : List ((Nat × Nat) × String) :=
  d1.ids.flatMap fun c =>
    let a := d0.s.co c
    let b := d1.s.co c
    let rep (k : Nat) (n : Nat) (t : String) := List.replicate n ((k, c), t)
    let sawNew := (List.range (b.saw.length - a.saw.length)).map fun i =>
      let n := a.saw.length + i
      match b.saw.reverse[n]? with
      | some (f, o) => ((2, c * 1000 + n), s!"s{c}.{n}:{srcStr d1 f}=" ++ outStr d1.isVoid (some o))
      | none => ((2, c * 1000 + n), "?")
    let res := if a.outcome.isNone && b.outcome.isSome then [((3, c), s!"r{c}=" ++ outStr d1.isVoid b.outcome)] else []
    rep 0 (b.allocs - a.allocs) s!"+f{c}" ++ rep 1 (b.bodyStarts - a.bodyStarts) s!"b{c}" ++ sawNew ++ res
      ++ rep 4 (b.localDtors - a.localDtors) s!"~l{c}" ++ rep 5 (b.argDtors - a.argDtors) s!"~a{c}"
      ++ rep 6 (b.frameFrees - a.frameFrees) s!"-f{c}"
      ++ (match d1.opFuts.find? (fun p => p.1 == c) with
          | some (_, f) =>
              -- the completion callback fires at the resolution; the operation object dies with the frame's arguments
              List.replicate ((d1.s.fut f).cbCalls - (d0.s.fut f).cbCalls) ((10, c), s!"O{c}=" ++ outStr d1.isVoid (d1.s.fut f).out)
              ++ rep 11 (b.argDtors - a.argDtors) (s!"~o{c}=" ++ (if b.notifiedAtFree == some true then "ready" else "pending"))
          | none => [])

def report (d : DState) : DState × List ((Nat × Nat) × String) :=
  let idx := List.range d.slots.length
  let slotEv := idx.filterMap fun i =>
    match d.slots[i]? with
    | some (f, false) => if (d.s.fut f).ready then some ((7, i), s!"F{i}=" ++ outStr d.isVoid (d.s.fut f).out) else none
    | _ => none
  let slots' := d.slots.map fun (f, r) => (f, r || (d.s.fut f).ready)
  let extEv := (List.range d.s.nExt).filterMap fun k =>
    if (d.s.fut k).ready && !d.extRep.contains k then some ((8, k), s!"X{k}=" ++ outStr d.isVoid (d.s.fut k).out) else none
  let extRep' := d.extRep ++ (List.range d.s.nExt).filter fun k => (d.s.fut k).ready && !d.extRep.contains k
  ({ d with slots := slots', extRep := extRep' }, slotEv ++ extEv)

def finishLine (d0 : DState) (d1 : DState) (head : String) (extra : List ((Nat × Nat) × String) := []) : DState × String :=
  let d2 := { d1 with s := quiesce d1.ids d1.s 100000 }
  let evs := events d0 d2
  let (d3, evs2) := report d2
  (d3, withEvents head ((sortBy (·.1) (evs ++ evs2 ++ extra)).map (·.2)))

/-- the unstarted instance `i`, created when absent; `none` when it was consumed already -/
def obtain (d : DState) (i : Nat) : Option DState :=
  let d := addIds d [i]
  match (d.s.co i).st with
  | St.absent => some { d with s := (step d.s (Op.create i)).1 }
  | St.unstarted => some d
  | _ => none

def doOp (d : DState) (ws : List String) : DState × String :=
  let num (i : Nat) : Nat := (natArg ws i).getD 0
  match ws with
  | "coro" :: i :: acts =>
      let i := i.toNat?.getD 0
      let as := acts.filterMap parseAct
      let d1 := addIds d (i :: as.flatMap actIds)
      finishLine d { d1 with s := { d1.s with prog := upd d1.s.prog i as } } "def"
  | ["new", _] =>
      let i := num 1
      let d1 := addIds d [i]
      if (d1.s.co i).st = St.absent then finishLine d { d1 with s := (step d1.s (Op.create i)).1 } "new"
      else finishLine d d1 "bad-op"
  | "drop" :: _ | "detach" :: _ | "start" :: _ | "fut" :: _ | "pool" :: _ | "startp" :: _ | "startpm" :: _
  | "startop" :: _ | "join" :: _ =>
      let op := ws.head!
      let i := num 1
      match obtain d i with
      | none => finishLine d (addIds d [i]) "bad-op"
      | some d1 =>
        if op == "drop" then finishLine d { d1 with s := (step d1.s (Op.dropU i)).1 } "drop"
        else if op == "detach" then finishLine d { d1 with s := (step d1.s (Op.detach i)).1 } "detach"
        else if op == "start" || op == "fut" || op == "pool" then
          let f := d1.s.nextFut
          finishLine d { d1 with s := (step d1.s (Op.start i)).1, slots := d1.slots ++ [(f, false)] } op
        else if op == "startp" || op == "startpm" then
          let k := num 2
          if k < d1.s.nExt then
            let (s', r) := step d1.s (Op.startP i k)
            finishLine d { d1 with s := s' } (op ++ (if r == Res.flag true then " 1" else " 0"))
          else finishLine d d1 "bad-op"
        else if op == "startop" then
          let f := d1.s.nextFut
          finishLine d { d1 with s := (step d1.s (Op.start i true)).1, opFuts := d1.opFuts ++ [(i, f)] } "startop 1"
        else
          let v := num 2
          let f := d1.s.nextFut
          let s1 := (step d1.s (Op.start i)).1
          let s2 := (List.range s1.nExt).foldl (fun s k => (step s (Op.setF k (Outcome.val v))).1) s1
          let s3 := quiesce d1.ids s2 100000
          let o := if (s3.fut f).ready then outStr d.isVoid (s3.fut f).out else "pending"
          finishLine d { d1 with s := s3 } ("join " ++ o)
  | ["fcoro", _] =>
      let i := num 1
      let d1 := addIds d [i]
      if (d1.s.co i).st = St.absent then
        let s1 := (step d1.s (Op.create i)).1
        let f := s1.nextFut
        finishLine d { d1 with s := (step s1 (Op.start i)).1, slots := d1.slots ++ [(f, false)] } "fcoro"
      else finishLine d d1 "bad-op"
  | "set" :: _ | "tset" :: _ | "exc" :: _ | "texc" :: _ =>
      let op := ws.head!
      let k := num 1
      if k < d.s.nExt ∧ ws.length ≥ 2 then
        let o := if op == "set" || op == "tset" then Outcome.val (num 2) else Outcome.exc (num 2)
        let (s', r) := step d.s (Op.setF k o)
        finishLine d { d with s := s' } (op ++ (if r == Res.flag true then " 1" else " 0"))
      else finishLine d d "bad-op"
  | "dropp" :: _ =>
      let k := num 1
      if k < d.s.nExt ∧ ws.length ≥ 2 then finishLine d { d with s := (step d.s (Op.dropP k)).1 } "dropp"
      else finishLine d d "bad-op"
  | _ => finishLine d d "bad-op"

def doEnd (d : DState) : String :=
  let s1 := (List.range d.s.nExt).foldl (fun s k => (step s (Op.dropP k)).1) d.s
  let s2 := quiesce d.ids s1 100000
  let s3 := d.ids.foldl (fun s c => (step s (Op.dropU c)).1) s2
  let hang := (List.range d.slots.length).filterMap fun i =>
    match d.slots[i]? with
    | some (f, _) => if (s3.fut f).ready then none else some ((9, i), s!"hang:F{i}")
    | none => none
  (finishLine d { d with s := s3 } "end" hang).2

/-! ### T-style cases (`case <id> asynct <T>`): the micro-step race model under the baton scheduler's pick rule -/
namespace Race
open Cocls.AsyncRace

def parseKind (ws : List String) : Option Kind :=
  let n := (ws[2]?.bind (·.toNat?)).getD 0
  match ws with
  | "t" :: "start" :: _ => some (Kind.start n)
  | "t" :: "startw" :: _ => some (Kind.startw n)
  | "t" :: "startx" :: _ => some (Kind.startx n)
  | "t" :: "value" :: _ => some (Kind.value n)
  | "t" :: "exc" :: _ => some (Kind.exc n)
  | "t" :: "dtor" :: _ => some Kind.dtor
  | "t" :: _ :: _ => some Kind.drop
  | _ => none

def ptrStr (b : Bool) : String := if b then "ptr" else "null"

def evStr : Ev → String
  | Ev.xchgOwner a had => s!"s {a} xchg owner {ptrStr had}>null"
  | Ev.loadOwner a had => s!"s {a} load owner {ptrStr had}"
  | Ev.xchgSlot a => s!"s {a} xchg slot null>ready"
  | Ev.loadGate a => s!"s {a} load gate null"
  | Ev.casGate a => s!"s {a} cas+ gate null>ptr"
  | Ev.waitBlock a => s!"s {a} wait-block others"
  | Ev.body a => s!"body t{a}"
  | Ev.bodyend a => s!"bodyend t{a}"
  | Ev.argd a => s!"argd t{a}"
  | Ev.ret a r => s!"ret t{a} {boolStr r}"
  | Ev.fin a => s!"s {a} fin"

/-- the baton scheduler's choice: the named thread if enabled, else the next enabled one cyclically -/
def pick (c : Cfg) (s : AsyncRace.State) (want : Option Nat) : Option Nat :=
  match want with
  | some w => ((List.range c.n).map (fun k => (w + k) % c.n)).find? (enabled c s)
  | none => (List.range c.n).find? (enabled c s)

partial def runSched (c : Cfg) (s : AsyncRace.State) (sched : List Nat) (acc : Array String) (fuel : Nat) :
    AsyncRace.State × Array String × Bool :=
  if fuel = 0 then (s, acc, true) else
  if (List.range c.n).all (fun i => s.pc i == Pc.fin) then (s, acc, false) else
  let (want, rest) := match sched with
    | w :: r => (some (w % c.n), r)
    | [] => (none, [])
  match pick c s want with
  | none => (s, acc, true)
  | some t =>
    let (s', evs) := AsyncRace.step c s t
    runSched c s' rest (acc ++ (evs.map evStr).toArray) (fuel - 1)

def outcomeStr (isVoid : Bool) : Option (Option Outcome) → String
  | none => "pending -"
  | some x => "ready " ++ (match x with
      | some (Outcome.val v) => if isVoid then "v" else s!"v:{v}"
      | some (Outcome.exc e) => s!"exc:{e}"
      | _ => "canceled")

def runCase (hdr : List String) (body : List (List String)) : List String := Id.run do
  let isVoid := hdr[3]? == some "void"
  -- at most one thread may destroy the promise object
  let kindsAll := body.filterMap parseKind
  let mut kinds : Array Kind := #[]
  for k in kindsAll do
    if !(k == Kind.dtor && kinds.contains Kind.dtor) then kinds := kinds.push k
  let sched := (body.filter (fun w => w.head? == some "sched")).flatMap (fun w => (w.drop 1).filterMap String.toNat?)
  let n := kinds.size
  if n == 0 then return ["end"]
  let cfg : Cfg := { n := n, kind := fun i => kinds[i]?.getD Kind.drop }
  let (s, out, dead) := runSched cfg {} sched #[] 10000
  if dead then return out.toList ++ ["deadlock", "end"]
  let mut out := out.push "run-end"
  let mut fut := s.fut
  let mut argd : Array Nat := (Array.range n).map s.argDtors
  if !kinds.contains Kind.dtor then
    out := out.push "promise-destroyed"
    if s.owner then fut := some none
  if kinds.any (fun k => match k with | Kind.startw _ => true | _ => false) then
    out := out.push "gate-open"
    for i in List.range n do
      if s.suspended i then
        out := (out.push s!"bodyend t{i}").push s!"argd t{i}"
        fut := some (cfg.kind i).payload
        argd := argd.set! i (argd[i]! + 1)
  out := out.push "cleanup"
  for i in List.range n do
    if (cfg.kind i).isStart && s.claimed i != some true then
      out := out.push s!"argd t{i}"
      argd := argd.set! i (argd[i]! + 1)
  out := out.push ("final " ++ outcomeStr isVoid fut)
  for i in List.range n do
    out := out.push s!"count t{i} body={s.bodyStarts i} argd={argd[i]!}"
  return out.toList ++ ["end"]

end Race

/-- collect the lines of a T-style case up to `end` -/
partial def collectT (lines : Array String) (i : Nat) (acc : List (List String)) : Nat × List (List String) :=
  if h : i < lines.size then
    let ws := words lines[i]
    if ws == ["end"] then (i + 1, acc.reverse)
    else if ws.head? == some "case" then (i, acc.reverse)
    else collectT lines (i + 1) (if ws.isEmpty then acc else ws :: acc)
  else (i, acc.reverse)

partial def loop (lines : Array String) (i : Nat) (st : Option DState) : IO Unit := do
  if h : i < lines.size then
    let ws := words lines[i]
    match ws, st with
    | ("case" :: id :: "asynct" :: _), _ =>
        IO.println s!"case {id}"
        let (j, body) := collectT lines (i + 1) []
        for l in Race.runCase ws body do IO.println l
        loop lines j none
    | ("case" :: id :: "async" :: ty :: rest), _ =>
        IO.println s!"case {id}"
        let n := (rest.head?.bind (·.toNat?)).getD 0
        let n := if n > 64 then 0 else n
        if ty == "int" || ty == "void" || ty == "mo" || ty == "ref" then
          loop lines (i+1) (some { s := init (fun _ => []) n, isVoid := ty == "void" })
        else if ty == "pk" then
          loop lines (i+1) (some { s := init (fun _ => []) n pickyExc, isVoid := false })
        else
          IO.println "bad-kind"
          loop lines (i+1) none
    | ["end"], some d =>
        IO.println (doEnd d)
        loop lines (i+1) none
    | [], _ => loop lines (i+1) st
    | _, some d =>
        let (d', out) := doOp d ws
        IO.println out
        loop lines (i+1) (some d')
    | _, none => loop lines (i+1) st
  else return ()

def main : IO Unit := do
  let lines ← readLines (← IO.getStdin)
  loop lines 0 none
