import CoclsModel.Proto
import CoclsModel.MutexPtr
/-! Driver for the suite `ptr-level` of C08: runs the POINTER-LEVEL mutex model (`MutexPtr.lean`) on the scenarios of
harness/h_mutex.cpp.  The operation lines are those of `Drivers/C07.lean`; for cases of kind `mutexp` every operation line is
followed by a digest of the pointer state (`_requests`, `_queue`, `_next` of every published request node whose owner has
not yet continued past its acquisition), which the harness prints from the real object. -/
open Cocls Cocls.Proto Cocls.Mutex

def seenStr : Seen → String
  | Seen.null => "null"
  | Seen.door => "door"
  | Seen.node _ _ => "ptr"

def ptrStr : Seen → String
  | Seen.null => "null"
  | Seen.door => "door"
  | Seen.node a k => s!"n{a}.{k}"

def evStr : Ev → String
  | Ev.cas t a ok s d => s!"s {t} a{a} cas{if ok then "+" else "-"} req {seenStr s}>{seenStr d}"
  | Ev.xchg t a s d => s!"s {t} a{a} xchg req {seenStr s}>{seenStr d}"
  | Ev.store t a ft k => s!"s {t} a{a} store a{ft}.{k} 1"
  | Ev.waitBlock t a ft k => s!"s {t} a{a} wait-block a{ft}.{k}"
  | Ev.waitPass t a ft k => s!"s {t} a{a} wait-pass a{ft}.{k}"
  | Ev.cbBlock t a => s!"s {t} a{a} cb-block"
  | Ev.cbPass t a => s!"s {t} a{a} cb-pass"
  | Ev.auxCas t a lk => s!"s {t} a{a} cas+ aux " ++ (if lk then "null>door" else "door>null")
  | Ev.csOp t a => s!"s {t} a{a} cs"
  | Ev.fin t => s!"s {t} fin"
  | Ev.cs a r o => s!"cs a{a} r{r}" ++ (if o then " OVERLAP" else "")
  | Ev.tryFail a r => s!"try-fail a{a} r{r}"
  | Ev.doneA a => s!"done a{a}"

/-- the events after which the harness has a scheduling point (every interposed operation) -/
def isOp : Ev → Bool
  | Ev.fin _ | Ev.cs _ _ _ | Ev.tryFail _ _ | Ev.doneA _ => false
  | _ => true

/-- a request node the harness knows: published (its owner is past the publishing CAS) and alive -/
def known (s : MutexPtr.State) (n : Nat × Nat) : Bool :=
  s.live n && (match s.pc n.1 with
    | Pc.sub _ => false
    | _ => true)

def digest (n maxk : Nat) (s : MutexPtr.State) : String :=
  let nodes := (List.range n).flatMap fun a => (List.range (maxk + 1)).map fun k => (a, k)
  let links := (nodes.filter (known s)).map fun x => s!" n{x.1}.{x.2}>{ptrStr (s.next x)}"
  s!"p req={ptrStr s.requests} queue={ptrStr s.queue} |" ++ String.join links

def parseRound (w : String) : Option Round :=
  match w.toList with
  | f :: r :: opts =>
    let fl := match f with
      | 'l' => some Flavour.lock | 't' => some Flavour.try_ | 'c' => some Flavour.co | 'k' => some Flavour.cb | _ => none
    let rl := match r with
      | 'x' => some Rel.x | 'd' => some Rel.d | 'a' => some Rel.a | 'g' => some Rel.g | 'm' => some Rel.m | _ => none
    match fl, rl with
    | some fl, some rl => some { fl := fl, rel := rl, shared := opts.contains 's' }
    | _, _ => none
  | _ => none

def pick (n : Nat) (s : MutexPtr.State) (want : Option Nat) : Option Nat :=
  match want with
  | some w => ((List.range n).map (fun k => (w + k) % n)).find? (MutexPtr.enabled s)
  | none => (List.range n).find? (MutexPtr.enabled s)

def allDone (n : Nat) (s : MutexPtr.State) : Bool := (List.range n).all fun i => s.tmain i == TMain.finished

partial def runSched (c : Cfg) (dig : Option Nat) (s : MutexPtr.State) (sched : List Nat) (acc : Array String) (fuel : Nat) :
    MutexPtr.State × Array String × Bool :=
  if fuel = 0 then (s, acc, true) else
  if allDone c.n s then (s, acc, false) else
  let (want, rest) := match sched with
    | w :: r => (some (w % c.n), r)
    | [] => (none, [])
  match pick c.n s want with
  | none => (s, acc, true)
  | some t =>
    let (s', evs) := MutexPtr.threadStep c 10000 10000 s t
    let lines := evs.flatMap fun e =>
      match dig with
      | some maxk => if isOp e then [evStr e, digest c.n maxk s'] else [evStr e]
      | none => [evStr e]
    runSched c dig s' rest (acc ++ lines.toArray) (fuel - 1)

def runCase (kind : String) (body : List (List String)) : List String := Id.run do
  let ths := body.filter (fun w => w.head? == some "t")
  let sched := (body.filter (fun w => w.head? == some "sched")).flatMap (fun w => (w.drop 1).filterMap String.toNat?)
  let kinds := (ths.map (fun w => if w[1]? == some "coro" then AKind.coro else AKind.sync)).toArray
  let rounds := (ths.map (fun w => (w.drop 2).filterMap parseRound)).toArray
  let n := ths.length
  let cfg : Cfg := { n := n, kind := fun i => kinds[i]?.getD AKind.sync, rounds := fun i => rounds[i]?.getD [] }
  let maxk := (rounds.toList.map List.length).foldl max 0 + 1
  let (s, out, dead) := runSched cfg (if kind == "mutexp" then some maxk else none) (MutexPtr.init cfg) sched #[] 100000
  if dead then return (out.toList ++ ["deadlock", "end"])
  let rq := match s.requests with
    | Seen.null => "free"
    | Seen.door => "locked"
    | _ => "chain"
  let auxFree := (List.range n).all fun i => !s.aux i
  let mut lines := out.push (s!"final req={rq} queue={if s.queue == Seen.null then "empty" else "nonempty"}" ++
    s!" slot={if s.held n then "armed" else "empty"} aux={if auxFree then "free" else "locked"}")
  for i in [0:n] do
    lines := lines.push s!"agent a{i} rounds={s.round i}/{(cfg.rounds i).length}"
  return (lines.toList ++ ["end"])

partial def loop (lines : Array String) (i : Nat) (hdr : List String) (body : List (List String)) : IO Unit := do
  if h : i < lines.size then
    let ws := words lines[i]
    match ws with
    | "case" :: _ :: _ => loop lines (i+1) ws []
    | ["end"] =>
        IO.println s!"case {hdr[1]?.getD "?"}"
        for l in runCase (hdr[2]?.getD "mutex") body.reverse do IO.println l
        loop lines (i+1) [] []
    | [] => loop lines (i+1) hdr body
    | _ => loop lines (i+1) hdr (ws :: body)
  else return ()

def main : IO Unit := do
  let lines ← readLines (← IO.getStdin)
  loop lines 0 [] []
