#!/usr/bin/env python3
"""Generate the prompts of one round of independent seeded-change agents.

usage: tools/gen_mut_prompts.py <round> [out_dir=/root/scratch/prompts]

One file mut<round>_cXX.md per property: the property text (title, statement, quantifier, why the tests cannot settle it, anchor files, mechanisms) copied
from properties.jsonl, the protocol (own worktree under /tmp, nothing from /verif, deliverables layout expected by tools/triage_seeded.sh /
tools/confirm_seeded.py), and one-line summaries of all earlier seeded changes for that property (so that a new round looks for something of a
different nature).  Nothing of /verif's machinery is mentioned.
"""
import glob, json, os, sys

R = sys.argv[1]
OUT = sys.argv[2] if len(sys.argv) > 2 else "/root/scratch/prompts"
os.makedirs(OUT, exist_ok=True)
props = [json.loads(l) for l in open("/verif/properties.jsonl") if l.strip()]
earlier = {}
for f in sorted(glob.glob("/verif/seeded/*/meta.json")):
    m = json.load(open(f))
    earlier.setdefault(m.get("property"), []).append(m)

T = """You are testing how robust a verification effort is. You get ONE semantic property of the C++20 coroutine library ondra-novak/cocls (header-only, src/cocls/*.h)
and your own scratch git worktree of the repository at {wt} (create it first: `git -C /repo worktree add --detach {wt} HEAD`). Work ONLY inside {wt} (and /tmp).
Never read or write anything under /verif, never edit /repo itself, never commit anywhere.

## The property ({pid})
Title: {title}
Statement: {statement}
Quantifier: {quant}
Why the existing tests cannot settle it: {why}
Anchors (files): {files}
Mechanisms: {mech}

## Your task
Produce TWO independent, realistic changes to the library source (src/cocls/*.h) — the kind of edit a maintainer might plausibly make (an "optimisation", "simplification",
"clean-up", "hardening", refactoring, API convenience) — each of which BREAKS the property above while
 (a) the library and all tests/examples still compile (`cmake -G Ninja -S {wt} -B {wt}/_b && cmake --build {wt}/_b -j4`), and
 (b) the existing test suite still passes (`ctest --test-dir {wt}/_b -j4 --repeat until-pass:5 --timeout 120`; 15 tests; test_generator_aggregator_async_infinite is wall-clock
     dependent and may need the repeats under load).
Each change must need something SPECIFIC to manifest — a particular thread interleaving, a fault/exception at a particular point, a multi-step operation sequence, an unusual
input/type/configuration, an exact boundary value, or two cooperating edit sites that each look fine alone — NOT something ordinary use would expose at once.
Prefer changes that are different in nature from the earlier ones listed below (those are already known; do not repeat their mechanism): think about glue code around the core
mechanism, rarely used API entry points and overloads, error/cancellation/exception paths, move/copy/assignment of the objects involved, destruction order, re-entrancy, interaction
with the executor (coroutine mode vs normal mode), value types (references, void, move-only, throwing constructors), exact boundaries, memory orders, lock scope, and shared
infrastructure headers (awaiter.h, future.h, suspend_point.h, coro_queue.h, coro_storage.h, function.h, common.h) that the property depends on indirectly. Two-site changes
(each edit harmless alone) and changes that only matter after a long or unusual history (wrap-around, re-use of an object after an error, the N-th call) are especially welcome.

For each change write a small self-contained demonstration program demo.cpp (single file, includes only <cocls/...> and the standard library, `g++ -std=c++20 -O1 -g -pthread -I<src>`;
if it needs a sanitizer put the exact build command with the -fsanitize flag in the first line of demo.txt) that exits 0 / prints PASS on the unchanged library and exits non-zero
(assert, wrong result, sanitizer report, hang guarded by a watchdog `alarm()`/timeout → non-zero exit) with the change. Make the demo deterministic if you can (use explicit
hand-over flags/sleeps to force the interleaving; if probabilistic, loop until it fails within ~20 s). Verify all of it yourself: suite passes with the change; demo fails with the change
(run it 3 times); demo passes without (`git -C {wt} diff -- src > /tmp/<yours>.diff; git -C {wt} checkout -- src`, run it 3 times, `git -C {wt} apply /tmp/<yours>.diff` to get the change back).
NEVER use `git stash`: the stash is shared by all worktrees of /repo and other agents work in theirs at the same time.

## Deliverables (exactly this layout)
{wt}/out/1/patch.diff   (`git -C {wt} diff -- src > out/1/patch.diff` with ONLY change 1 applied, relative to HEAD)
{wt}/out/1/demo.cpp
{wt}/out/1/demo.txt     (first line: exact build command; then what it prints with / without the change)
{wt}/out/1/meta.json    {{"property":"{pid}","summary":"<what was changed and why it looks innocent>","needs":"<what it needs in order to manifest>","tests_pass":true,
                          "demo_fails_with_change":true,"demo_passes_without":true,"how_verified":"<commands you ran and what you saw>"}}
{wt}/out/2/...          the same for change 2
When done, leave the worktree's src/ CLEAN (git checkout -- src), delete {wt}/_b (build output) and any binaries, keep only out/. Your final message: one paragraph per change
(what, where, what it needs, how the demo shows it). If you could only produce one valid change, deliver one and say so.

## Earlier changes for this property (already known — do something of a different nature)
{earlier}
"""

for p in props:
    pid = p["id"]
    wt = "/tmp/mut%s_%s" % (R, pid.lower())
    a = p.get("anchors", {})
    mech = "; ".join("%s (%s)" % (m.get("name", m.get("what", "")), m.get("where", "")) if isinstance(m, dict) else str(m) for m in (a.get("mechanism") or a.get("mechanisms") or []))
    if not mech:
        mech = "; ".join("%s: %s" % (s.get("name"), s.get("meaning")) for s in a.get("state", []))
    q = p.get("quantifier", {})
    ear = "\n".join("- %s  [needs: %s]" % ((m.get("summary") or "")[:330].replace("\n", " "), (m.get("needs") or "")[:160].replace("\n", " "))
                    for m in earlier.get(pid, [])) or "- (none)"
    txt = T.format(wt=wt, pid=pid, title=p["title"], statement=p["statement"], quant=q.get("text", ""), why=p.get("why_tests_cant", ""),
                   files=", ".join(a.get("files", [])), mech=mech, earlier=ear)
    open(os.path.join(OUT, "mut%s_%s.md" % (R, pid.lower())), "w").write(txt)
print("wrote", len(props), "prompts to", OUT)
