#!/usr/bin/env python3
"""Debug aid: tools/diffs.py <Cxx> [suite-name] [N] — run the quick-tier cases of the property's suites through harness and driver and
print the first N disagreements (input, first differing line, both outputs). No verdict, no evidence."""
import os, random, sys
sys.path.insert(0, os.path.dirname(os.path.dirname(os.path.abspath(__file__))))
from vlib import core
import check
pid = sys.argv[1]
want = sys.argv[2] if len(sys.argv) > 2 and not sys.argv[2].isdigit() else None
N = int(sys.argv[-1]) if sys.argv[-1].isdigit() else 3
spec = check.load(pid)
rng = random.Random(core.seed() * 1000003 + sum(ord(c) for c in pid))
for suite in spec.suites():
    cases = (core.load_corpus(suite.corpus_prefix) if suite.corpus_prefix else []) + suite.gen_cases(rng, "quick")
    if want and suite.name != want:
        continue
    core.renumber(cases)
    exe = core.build_harness(suite.harness[0], suite.harness[1], **suite.harness[2])
    impl = core.run_cases(exe, cases, chunk=suite.chunk, timeout=suite.timeout, args=suite.harness_args())
    model = core.run_cases(core.driver_exe(suite.driver), cases, chunk=200, timeout=suite.timeout) if suite.driver and suite.compare else {}
    shown = 0
    nd = 0
    for c in cases:
        cid = str(c["id"])
        io, mo = impl.get(cid, {}), model.get(cid)
        iout = suite.normalize(io.get("out", []))
        msgs = []
        try:
            msgs = suite.oracle(c, iout) if io.get("rc") == 0 else ["crash rc=%s" % io.get("rc")]
        except Exception as e:
            msgs = ["oracle error %r" % e]
        d = None
        if mo is not None:
            d = core.first_diff(suite.normalize(mo["out"]), iout)
        if d is None and not msgs:
            continue
        nd += 1
        if shown < N:
            shown += 1
            print("=== %s/%s case %s%s" % (pid, suite.name, cid, " (corpus %s)" % c.get("corpus") if c.get("corpus") else ""))
            print("\n".join(c["lines"]))
            print("--- first diff:", d, " oracle:", msgs[:3])
            print("--- impl:\n  " + "\n  ".join(iout[:60]))
            if mo is not None:
                print("--- model:\n  " + "\n  ".join(suite.normalize(mo["out"])[:60]))
            if io.get("rc"):
                print(io.get("err", "")[-1500:])
    print("## %s/%s: %d cases, %d with a disagreement / oracle failure / crash" % (pid, suite.name, len(cases), nd))
