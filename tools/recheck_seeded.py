#!/usr/bin/env python3
"""Run every archived seeded change (seeded/<id>/patch.diff + meta.json) against the check of the property it breaks
(and, when that one stays silent, against the other checks named in meta['also_try']); record the outcome in meta.json."""
import json, os, re, subprocess, sys, time
root = "/verif/seeded"
only = sys.argv[1:]
rows = []
from concurrent.futures import ThreadPoolExecutor
JOBS = int(os.environ.get("RECHECK_JOBS", "3"))


def one(sid):
    d = os.path.join(root, sid)
    mp = os.path.join(d, "meta.json")
    m = json.load(open(mp))
    pids = [m.get("property")] + list(m.get("also_try", []))
    caught = None
    detail = ""
    for pid in pids:
        t0 = time.time()
        p = subprocess.run([sys.executable, "/verif/tools/run_seeded.py", os.path.join(d, "patch.diff"), pid],
                           stdout=subprocess.PIPE, stderr=subprocess.STDOUT, text=True)
        out = p.stdout
        mm = re.search(r"rc=(\d+)", out)
        viol = [l.strip() for l in out.splitlines() if "VIOLATION" in l]
        if mm and mm.group(1) == "1" and viol:
            caught = pid
            kind = "no-failing-input-found" if all("no-failing-input-found" in v for v in viol) else "concrete failing input"
            detail = "%s (%d VIOLATION lines, %s, %.0fs)" % (pid, len(viol), kind, time.time() - t0)
            break
        if "PATCH-DOES-NOT-APPLY" in out:
            detail = "patch does not apply to the current tree"
            break
    m["outcome"] = ("caught by check " + detail) if caught else ("MISSED" if not detail else detail)
    m["rechecked_at_repo_head"] = subprocess.run(["git", "-C", "/repo", "rev-parse", "--short", "HEAD"], stdout=subprocess.PIPE, text=True).stdout.strip()
    json.dump(m, open(mp, "w"), indent=1)
    print(sid, "->", m["outcome"], flush=True)
    return sid, m["outcome"]


ids = []
for sid in sorted(os.listdir(root)):
    d = os.path.join(root, sid)
    if not os.path.isdir(d) or not os.path.exists(os.path.join(d, "meta.json")):
        continue
    if only and sid not in only:
        continue
    ids.append(sid)
with ThreadPoolExecutor(max_workers=JOBS) as ex:
    rows = list(ex.map(one, ids))
