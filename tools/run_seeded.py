#!/usr/bin/env python3
"""Run a property's check against a seeded change: tools/run_seeded.py <patch.diff> <Cxx> [--tier t] [--keep]
Applies the patch in a scratch worktree of /repo (never in /repo itself) and runs the check with COCLS_REPO pointing there."""
import os, subprocess, sys, shutil, tempfile, time
patch, pid = sys.argv[1], sys.argv[2]
tier = "quick"
if "--tier" in sys.argv:
    tier = sys.argv[sys.argv.index("--tier") + 1]
wt = "/root/scratch/seeded_%s_%d" % (pid.lower(), os.getpid())
subprocess.run(["git", "-C", "/repo", "worktree", "add", "-q", "--detach", wt, "HEAD"], check=True)
try:
    r = subprocess.run(["git", "-C", wt, "apply", os.path.abspath(patch)])
    if r.returncode != 0:
        r = subprocess.run(["git", "-C", wt, "apply", "--3way", os.path.abspath(patch)])
        if r.returncode != 0:
            print("PATCH-DOES-NOT-APPLY")
            sys.exit(3)
    t0 = time.time()
    env = dict(os.environ, COCLS_REPO=wt, VERIF_EVIDENCE_DIR="/root/scratch/evidence_seeded")
    p = subprocess.run([sys.executable, "/verif/check.py", pid, "--tier", tier], env=env, cwd="/verif",
                       stdout=subprocess.PIPE, stderr=subprocess.PIPE, text=True)
    viol = [l for l in p.stdout.splitlines() if l.startswith("VIOLATION") or l.startswith("KNOWN-FINDING")]
    print("rc=%d %.0fs" % (p.returncode, time.time() - t0))
    for l in viol[:6]:
        print("  " + l)
    print("  " + (p.stderr.strip().splitlines() or [""])[-1][:300])
finally:
    subprocess.run(["git", "-C", "/repo", "worktree", "remove", "--force", wt])
