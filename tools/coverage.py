#!/usr/bin/env python3
"""Which parts of /repo/src/cocls do the correspondence harnesses actually execute?

For every suite of every check: build the harness with gcov instrumentation (no sanitizers, -O0), run the corpus and
the quick-tier generated cases through it, collect gcov's per-line counts for the cocls headers, and merge them over all
harnesses.  The list of function bodies comes from clang's AST of all headers (so templates that no harness instantiates
are visible as `never instantiated`).  Result: /verif/coverage.json and /verif/COVERAGE.md.

This is a measurement of the *tie* (what the differential runs can see), not a check: it raises no alarm.
usage: python3 tools/coverage.py [Cxx ...]   (with ids: report goes to /root/scratch/coverage_<ids>/, the committed report is left alone)
"""
import bisect
import glob
import gzip
import importlib
import json
import os
import random
import shutil
import subprocess
import sys
import time

VERIF = os.path.dirname(os.path.dirname(os.path.abspath(__file__)))
sys.path.insert(0, VERIF)
from vlib import core  # noqa: E402
from extract import astwalk  # noqa: E402

COV = os.path.join(VERIF, "build", "cov_%d" % os.getpid())
HDR = os.path.join(core.REPO, "src", "cocls")


def all_ids():
    d = os.path.join(VERIF, "checks")
    return sorted(f[:-3].upper() for f in os.listdir(d) if f.startswith("c") and f[1:3].isdigit() and f.endswith(".py"))


def build(hname, hsrc, hkw):
    try:
        return build1(hname, hsrc, hkw, [])
    except RuntimeError:
        # a harness that uses the sanitizer's allocation hooks only links with ASan
        return build1(hname, hsrc, hkw, ["-fsanitize=address"])


def build1(hname, hsrc, hkw, san):
    d = os.path.join(COV, hname)
    shutil.rmtree(d, ignore_errors=True)
    os.makedirs(d)
    flags = ["-std=c++20", "-O0", "-g", "--coverage", "-fno-inline", "-DCOCLS_VERIF"] + san + [f for f in hkw.get("extra_flags", ())] + \
            ["-I" + os.path.join(core.REPO, "src"), "-I" + os.path.join(VERIF, "harness")]
    # the harnesses name private library members through the generated VN_ macros (extract/names.py): same force-include as build_harness
    nd = core.names_header_dir()
    flags += ["-I" + nd, "-include", os.path.join(nd, "cocls_names.h")]
    objs = []
    for s in list(hsrc) + ["cov_support.cpp"]:
        o = os.path.join(d, os.path.splitext(s)[0] + ".o")
        rc, out, err = core.sh([core.CXX] + flags + ["-c", os.path.join(VERIF, "harness", s), "-o", o], timeout=1800)
        if rc != 0:
            raise RuntimeError("coverage build of %s failed:\n%s" % (s, (out + err)[-3000:]))
        objs.append(o)
    exe = os.path.join(d, "exe")
    rc, out, err = core.sh([core.CXX, "--coverage"] + san + objs + ["-o", exe, "-pthread"] + list(hkw.get("libs", ())), timeout=600)
    if rc != 0:
        raise RuntimeError("coverage link of %s failed:\n%s" % (hname, (out + err)[-3000:]))
    return d, exe, objs


BR = {}   # header -> {(line, branch index): count}


def gcov_lines(d, objs):
    """file -> {line: count} for the cocls headers"""
    res = {}
    for o in objs:
        if not os.path.exists(o[:-2] + ".gcda"):
            continue
        p = subprocess.run(["gcov", "-b", "--json-format", "--stdout", "-o", d, o], cwd=d, stdout=subprocess.PIPE, stderr=subprocess.DEVNULL)
        for chunk in p.stdout.decode(errors="replace").splitlines():
            if not chunk.startswith("{"):
                continue
            try:
                j = json.loads(chunk)
            except ValueError:
                continue
            for f in j.get("files", []):
                fn = os.path.realpath(os.path.join(d, f["file"]))
                if not fn.startswith(os.path.realpath(HDR) + os.sep):
                    continue
                m = res.setdefault(os.path.basename(fn), {})
                bm = BR.setdefault(os.path.basename(fn), {})
                for ln in f.get("lines", []):
                    m[ln["line_number"]] = m.get(ln["line_number"], 0) + ln["count"]
                    # two-way decisions only (no exception edges): (line, index) -> times taken, summed over instantiations
                    brs = [b for b in ln.get("branches", []) if not b.get("throw")]
                    if len(brs) >= 2:
                        for i, b in enumerate(brs):
                            k = (ln["line_number"], i)
                            bm[k] = bm.get(k, 0) + b["count"]
    return res


def function_bodies():
    """[(header, name, first_line, last_line)] of every function body in the cocls headers (clang AST)"""
    work = os.path.join(COV, "_ast")
    objs = astwalk.dump_ast(core.REPO, work)
    kinds = {"FunctionDecl", "CXXMethodDecl", "CXXConstructorDecl", "CXXDestructorDecl", "CXXConversionDecl"}
    offs = {}

    def line_of(file, off):
        if file not in offs:
            data = open(file, "rb").read()
            offs[file] = [i for i, b in enumerate(data) if b == 10]
        return bisect.bisect_left(offs[file], off) + 1

    def off_of(loc):
        if "offset" in loc:
            return loc["offset"]
        for k in ("expansionLoc", "spellingLoc"):
            if k in loc and "offset" in loc[k]:
                return loc[k]["offset"]
        return None

    seen, out = set(), []

    def rec(o, scope):
        if not isinstance(o, dict):
            return
        k = o.get("kind")
        name = o.get("name", "")
        if k in kinds and not o.get("isImplicit"):
            body = [c for c in o.get("inner", []) if isinstance(c, dict) and c.get("kind") in ("CompoundStmt", "CXXTryStmt")]
            f = o.get("_file", "")
            if body and f.startswith(HDR):
                r = o.get("range", {})
                b, e = off_of(r.get("begin", {})), off_of(r.get("end", {}))
                if b is not None and e is not None and (f, b) not in seen:
                    seen.add((f, b))
                    out.append((os.path.basename(f), "::".join(scope + [name]), line_of(f, b), line_of(f, e)))
        sub = scope + [name] if k in ("CXXRecordDecl", "ClassTemplateDecl", "ClassTemplateSpecializationDecl",
                                      "ClassTemplatePartialSpecializationDecl", "NamespaceDecl") and name and \
            (not scope or scope[-1] != name) else scope
        for c in o.get("inner", []):
            rec(c, sub)

    for o in objs:
        rec(o, [])
    shutil.rmtree(work, ignore_errors=True)
    return sorted(out)


def main():
    ids = [a.upper() for a in sys.argv[1:]] or all_ids()
    # a partial run (some properties only) does not overwrite the committed whole-library report
    outdir = VERIF if not sys.argv[1:] else os.path.join("/root/scratch", "coverage_" + "_".join(ids))
    os.makedirs(outdir, exist_ok=True)
    t0 = time.time()
    merged, per_harness, done = {}, {}, {}
    for pid in ids:
        spec = importlib.import_module("checks." + pid.lower()).SPEC
        rng = random.Random(1000003 + sum(ord(c) for c in pid))
        for s in spec.suites():
            hname, hsrc, hkw = s.harness
            key = (hname, tuple(hsrc), json.dumps(hkw, sort_keys=True, default=str))
            if key not in done:
                try:
                    done[key] = build(hname + "-" + str(len(done)), hsrc, hkw)
                except Exception as e:
                    print("coverage: %s/%s: %s" % (pid, s.name, str(e)[-600:]))
                    done[key] = None
            if done[key] is None:
                continue
            d, exe, objs = done[key]
            cases = (core.load_corpus(s.corpus_prefix) if s.corpus_prefix else []) + s.gen_cases(rng, "quick")
            cases = cases[:int(os.environ.get("VERIF_COV_CASES", "4000"))]
            core.renumber(cases)
            core.run_cases(exe, cases, chunk=max(s.chunk, 50), timeout=s.timeout, args=s.harness_args())
            per_harness.setdefault(hname, set()).add(pid)
            print("coverage: %s/%s: %d cases through %s (%.0fs)" % (pid, s.name, len(cases), hname, time.time() - t0))
    for key, v in done.items():
        if v is None:
            continue
        d, exe, objs = v
        for hdr, m in gcov_lines(d, objs).items():
            mm = merged.setdefault(hdr, {})
            for ln, c in m.items():
                mm[ln] = mm.get(ln, 0) + c
    fns = function_bodies()
    report = {"generated_by": "tools/coverage.py", "harnesses": {h: sorted(p) for h, p in per_harness.items()}, "headers": {}}
    for hdr in sorted(os.listdir(HDR)):
        if not hdr.endswith(".h"):
            continue
        m = merged.get(hdr, {})
        ex = sorted(m)
        hit = [ln for ln in ex if m[ln] > 0]
        fl = []
        for (h, name, b, e) in fns:
            if h != hdr:
                continue
            inside = [ln for ln in ex if b <= ln <= e]
            st = "never-instantiated" if not inside else ("executed" if any(m[ln] > 0 for ln in inside) else "instantiated-not-executed")
            fl.append({"name": name, "lines": [b, e], "state": st,
                       "lines_executable": len(inside), "lines_executed": sum(1 for ln in inside if m[ln] > 0)})
        bm = BR.get(hdr, {})
        never = sorted({ln for (ln, i), c in bm.items() if c == 0 and m.get(ln, 0) > 0})
        report["headers"][hdr] = {"lines_executable": len(ex), "lines_executed": len(hit),
                                  "unexecuted_lines": [ln for ln in ex if m[ln] == 0],
                                  "branch_outcomes": len(bm), "branch_outcomes_taken": sum(1 for c in bm.values() if c > 0),
                                  "executed_lines_with_an_outcome_never_taken": never,
                                  "functions": fl}
    with open(os.path.join(outdir, "coverage.json"), "w") as f:
        json.dump(report, f, indent=1, sort_keys=True)
    # markdown summary
    L = ["# What the correspondence harnesses execute of /repo/src/cocls", "",
         "Generated by `python3 tools/coverage.py` (gcov build of every harness, corpus + quick-tier cases; function list from clang's AST).",
         "`never instantiated` = a template body no harness instantiates; such code is outside every correspondence run (it may still be covered by the",
         "extracted tables of C03/C20, which read the AST of all headers).", "",
         "| header | function bodies | executed | instantiated, not executed | never instantiated | executable lines | executed lines |",
         "|---|---|---|---|---|---|---|"]
    tot = [0, 0, 0, 0, 0, 0]
    for hdr, r in report["headers"].items():
        fl = r["functions"]
        a = sum(1 for x in fl if x["state"] == "executed")
        b = sum(1 for x in fl if x["state"] == "instantiated-not-executed")
        c = sum(1 for x in fl if x["state"] == "never-instantiated")
        L.append("| %s | %d | %d | %d | %d | %d | %d |" % (hdr, len(fl), a, b, c, r["lines_executable"], r["lines_executed"]))
        for i, v in enumerate([len(fl), a, b, c, r["lines_executable"], r["lines_executed"]]):
            tot[i] += v
    L.append("| **total** | %d | %d | %d | %d | %d | %d |" % tuple(tot))
    L += ["", "## Decisions: executed lines with a (non-exception) branch outcome that no harness ever takes", "",
          "gcov branch data (`-b`), exception edges dropped, summed over template instantiations; compiler-generated decisions (loops over",
          "parameter packs, `if constexpr` remnants, short-circuit operators) are included, so this list over-approximates.", ""]
    for hdr, r in report["headers"].items():
        if r["branch_outcomes"]:
            L.append("* **%s**: %d of %d outcomes taken; lines with an outcome never taken: %s" % (
                hdr, r["branch_outcomes_taken"], r["branch_outcomes"], ", ".join(map(str, r["executed_lines_with_an_outcome_never_taken"])) or "none"))
    L += ["", "## Function bodies not executed by any harness", ""]
    for hdr, r in report["headers"].items():
        miss = [x for x in r["functions"] if x["state"] != "executed"]
        if miss:
            L.append("* **%s**: " % hdr + "; ".join("`%s` (l.%d, %s)" % (x["name"], x["lines"][0], x["state"].replace("-", " ")) for x in miss))
    with open(os.path.join(outdir, "COVERAGE.md"), "w") as f:
        f.write("\n".join(L) + "\n")
    shutil.rmtree(COV, ignore_errors=True)
    print("coverage: report in %s/COVERAGE.md" % outdir)
    print("coverage: %d/%d function bodies executed, %d/%d executable lines, %.0fs" % (tot[1], tot[0], tot[5], tot[4], time.time() - t0))


if __name__ == "__main__":
    main()
