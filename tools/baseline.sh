#!/bin/bash
# Runs the repository's own test suite with the verification guard OFF (no -DCOCLS_VERIF anywhere).
set -e
B=${COCLS_BASELINE_BUILD:-/repo/_build}
if [ ! -f "$B/build.ninja" ] && [ ! -f "$B/Makefile" ]; then cmake -G Ninja -S /repo -B "$B" >/dev/null; fi
cmake --build "$B" >/dev/null
ctest --test-dir "$B" -j8 --timeout 900 --repeat until-pass:3
