#!/bin/bash
# usage: tools/benign_behav.sh [benign/<id> ...]   (default: all benign/r*-*)
# behavioural checks (every property except the table-driven C03/C20, which tools/run_benign.py --only C03,C20 covers) for each
# behaviour-preserving patch, restricted to the properties anchored in the headers the patch touches; reports under /root/scratch/benign_out/
cd /verif
out=/root/scratch/benign_out; mkdir -p $out
declare -A M=( [suspend_point.h]="C06 C05 C02" [coro_queue.h]="C05 C06" [queue.h]="C09 C10" [publisher.h]="C16" [scheduler.h]="C12" [thread_pool.h]="C11" [function.h]="C11" [signal.h]="C15" [shared_future.h]="C17" [generator.h]="C13 C14" [generator_aggregator.h]="C14" [future_conv.h]="C18" [callback_awaiter.h]="C18" [async.h]="C04" [future.h]="C01 C02 C18 C17" [awaiter.h]="C01 C02 C15" [mutex.h]="C07 C08" [coro_storage.h]="C19" [with_allocator.h]="C19" [alloca_storage.h]="C19" [iterator.h]="C13" )
ds="$@"; [ -z "$ds" ] && ds=$(ls -d benign/r*-*)
for d in $ds; do
  ps=""; for f in $(grep '^+++ b/' $d/patch.diff | sed 's/.*\///'); do ps="$ps ${M[$f]}"; done
  ps=$(echo $ps | tr ' ' '\n' | sort -u | tr '\n' ',' | sed 's/,$//')
  echo "== $d [$ps]"
  [ -n "$ps" ] && python3 tools/run_benign.py $d/patch.diff --only $ps --jobs ${JOBS:-2} --out $out/$(basename $d)_behav.json
done
