#!/usr/bin/env python3
"""Confirm a candidate seeded change myself, in a scratch worktree of /repo (never /repo itself):
  tools/confirm_seeded.py <dir with patch.diff + demo.cpp> [--no-suite] [--runs N]
1. the library with the change compiles and the pinned suite passes (cmake + ctest --repeat until-pass:5: the
   wall-clock test test_generator_aggregator_async_infinite is flaky under load on the unchanged tree too),
2. demo.cpp built against the changed headers fails (non-zero exit / signal / timeout) in at least one of N runs,
3. demo.cpp built against the unchanged headers passes in every one of N runs.
Prints one JSON line; exit 0 iff all three hold."""
import shutil
import json, os, subprocess, sys, shutil, time

src = os.path.abspath(sys.argv[1])
suite = "--no-suite" not in sys.argv
runs = int(sys.argv[sys.argv.index("--runs") + 1]) if "--runs" in sys.argv else 3
wt = "/root/scratch/confirm_%d" % os.getpid()
res = {"dir": src}


def sh(cmd, cwd=None, timeout=1800):
    try:
        p = subprocess.run(cmd, cwd=cwd, stdout=subprocess.PIPE, stderr=subprocess.STDOUT, text=True, errors="replace", timeout=timeout)
        return p.returncode, p.stdout
    except subprocess.TimeoutExpired as e:
        return -9, (e.stdout or b"").decode(errors="replace") if isinstance(e.stdout, bytes) else (e.stdout or "")


def demo_flags():
    """sanitizer / define flags the demonstration says it needs (demo.txt quotes its own build command)"""
    try:
        txt = open(os.path.join(src, "demo.txt")).read()
    except OSError:
        return []
    fl = []
    for f in ("-fsanitize=thread", "-fsanitize=address,undefined", "-fsanitize=address", "-DNDEBUG"):
        if f in txt.splitlines()[0].split("#")[0]:
            fl.append(f)
    if "-fsanitize=address,undefined" in fl and "-fsanitize=address" in fl:
        fl.remove("-fsanitize=address")
    return fl


def demo(incl, tag):
    exe = os.path.join(wt, "demo_" + tag)
    rc, out = sh(["g++", "-std=c++20", "-O1", "-g", "-pthread"] + demo_flags() + ["-I" + incl, os.path.join(src, "demo.cpp"), "-o", exe])
    if rc != 0:
        return None, out[-1500:]
    rcs = []
    last = ""
    for _ in range(runs):
        rc, out = sh([exe], cwd=wt, timeout=300)
        rcs.append(rc)
        last = out[-600:]
    return rcs, last


subprocess.run(["git", "-C", "/repo", "worktree", "add", "-q", "--detach", wt, "HEAD"], check=True)
try:
    clean, clean_out = demo("/repo/src", "clean")
    r = subprocess.run(["git", "-C", wt, "apply", os.path.join(src, "patch.diff")])
    if r.returncode != 0:
        res["error"] = "patch does not apply"
        print(json.dumps(res)); sys.exit(3)
    changed, changed_out = demo(os.path.join(wt, "src"), "changed")
    res["demo_unchanged_rcs"] = clean
    res["demo_changed_rcs"] = changed
    res["demo_changed_tail"] = changed_out[-300:] if changed_out else ""
    if clean is None:
        res["demo_unchanged_compile_error"] = clean_out
    if changed is None:
        res["demo_changed_compile_error"] = changed_out
    ok = clean is not None and all(c == 0 for c in clean) and changed is not None and any(c != 0 for c in changed)
    if suite:
        t0 = time.time()
        b = os.path.join(wt, "_b")
        rc, out = sh(["cmake", "-G", "Ninja", "-S", wt, "-B", b, ])
        if rc == 0:
            rc, out = sh(["cmake", "--build", b, "-j", "8"])
        res["library_builds"] = rc == 0
        if rc == 0:
            rc, out = sh(["ctest", "--test-dir", b, "-j", "4", "--repeat", "until-pass:5", "--timeout", "120"], timeout=3600)
            res["suite_passes"] = rc == 0
            res["suite_tail"] = "\n".join(out.strip().splitlines()[-3:])
            res["suite_failed_tests"] = [l.strip() for l in out.splitlines() if "***" in l or "(Failed)" in l or "(Timeout)" in l][:8]
            FLAKY = "test_generator_aggregator_async_infinite"   # wall-clock timers: fails under machine load on the unchanged tree too
            failed = {l.split(" - ")[1].split()[0] for l in out.splitlines() if " - " in l and "(Failed)" in l}
            if rc != 0 and failed and failed <= {FLAKY}:
                # under a load average of 50+ it fails on the unchanged tree in 29 of 30 runs; with real-time priority it passes at once
                pre = ["chrt", "-f", "10"] if shutil.which("chrt") else []
                rc2, out2 = sh(pre + ["ctest", "--test-dir", b, "-R", FLAKY, "--repeat", "until-pass:40", "--timeout", "120"], timeout=3600)
                res["flaky_timer_test_rerun_alone_passes"] = rc2 == 0
                res["suite_passes"] = rc2 == 0
        else:
            res["build_tail"] = out[-800:]
        res["suite_s"] = round(time.time() - t0)
        ok = ok and res.get("suite_passes", False)
    res["confirmed"] = bool(ok)
    print(json.dumps(res))
    sys.exit(0 if ok else 1)
finally:
    subprocess.run(["git", "-C", "/repo", "worktree", "remove", "--force", wt])
