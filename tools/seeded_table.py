#!/usr/bin/env python3
"""Rewrite the table of seeded changes in DESIGN.md (between the SEEDED-TABLE markers) from seeded/*/meta.json."""
import json, os, re
root = "/verif/seeded"
rows = []
for sid in sorted(os.listdir(root)):
    mp = os.path.join(root, sid, "meta.json")
    if not os.path.exists(mp):
        continue
    m = json.load(open(mp))
    summ = re.sub(r"\s+", " ", (m.get("summary") or ""))[:170].replace("|", "/")
    needs = re.sub(r"\s+", " ", (m.get("needs") or ""))[:120].replace("|", "/")
    note = re.sub(r"\s+", " ", (m.get("note") or "")).replace("|", "/")
    rows.append("| `%s` | %s | %s | %s | %s%s |" % (sid, m.get("property"), summ, needs, m.get("outcome", "?"), (" — " + note) if note else ""))
table = ("| seeded change | breaks | what was changed | needs | outcome (check, kind of report) |\n|---|---|---|---|---|\n" + "\n".join(rows) + "\n")
p = "/verif/DESIGN.md"
s = open(p).read()
b, e = "<!-- SEEDED-TABLE-BEGIN -->", "<!-- SEEDED-TABLE-END -->"
if b in s:
    s = s[:s.index(b) + len(b)] + "\n" + table + s[s.index(e):]
    open(p, "w").write(s)
    print("table updated: %d rows" % len(rows))
else:
    print(table)
