#!/usr/bin/env python3
"""validate MANIFEST.json and evidence/*.json against the schemas (run with python3-vt, which has jsonschema)"""
import json, glob, sys
import jsonschema
ok = True
def chk(path, schema):
    global ok
    try:
        jsonschema.validate(json.load(open(path)), json.load(open(schema)))
        print("ok  ", path)
    except Exception as e:
        ok = False
        print("FAIL", path, str(e)[:400])
chk("/verif/MANIFEST.json", "/root/.vp/MANIFEST.schema.json")
for f in sorted(glob.glob("/verif/evidence/*.json")):
    chk(f, "/root/.vp/EVIDENCE.schema.json")
sys.exit(0 if ok else 1)
