#!/usr/bin/env python3
"""Record the header hashes of the tree the models were validated against (used only to deepen runs on a changed tree)."""
import json, os, subprocess, sys
sys.path.insert(0, os.path.dirname(os.path.dirname(os.path.abspath(__file__))))
from vlib import core
head = subprocess.run(["git", "-C", core.REPO, "rev-parse", "HEAD"], stdout=subprocess.PIPE, text=True).stdout.strip()
json.dump({"repo_head": head, "headers": core.header_hashes()}, open(os.path.join(core.VERIF, "anchors.json"), "w"), indent=1, sort_keys=True)
print("anchors.json written for", head)
