#!/bin/bash
# usage: [R=<round>] tools/triage_seeded.sh c02 c03 ...   (candidates in /tmp/mut<round>_<pid>/out/{1,2}: confirm in a scratch worktree, then run the property's check against the patch)
cd /verif
for p in "$@"; do for i in 1 2; do d=/tmp/mut${R:-3}_$p/out/$i; [ -f $d/patch.diff ] || continue; echo "== $p $i"; python3 tools/confirm_seeded.py $d --runs 5 | python3 -c "import sys,json; r=json.loads(sys.stdin.read()); print({k:r.get(k) for k in ('confirmed','demo_unchanged_rcs','demo_changed_rcs','suite_passes','demo_changed_compile_error')})"; python3 tools/run_seeded.py $d/patch.diff ${p^^} 2>&1 | tail -4; done; done
