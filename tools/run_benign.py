#!/usr/bin/env python3
"""False-alarm test: run ALL checks against a change that is meant to keep every property.

usage: tools/run_benign.py <patch.diff> [--jobs N] [--only C03,C20] [--out report.json]

Applies the patch in a scratch worktree of /repo (never in /repo itself) and runs every property's quick check with COCLS_REPO pointing
there (evidence goes to a scratch directory).  Prints one line per check (exit code, VIOLATION lines) and a summary; a VIOLATION here is a
false alarm of the machinery (or the change is not as harmless as it claims - look at the replay before deciding which).
"""
import json, os, subprocess, sys, time
from concurrent.futures import ThreadPoolExecutor

args = sys.argv[1:]
patch = os.path.abspath(args[0])
jobs = int(args[args.index("--jobs") + 1]) if "--jobs" in args else 4
only = args[args.index("--only") + 1].split(",") if "--only" in args else None
out = args[args.index("--out") + 1] if "--out" in args else None
pids = only or ["C%02d" % i for i in range(1, 21)]
wt = "/root/scratch/benign_%d" % os.getpid()
ev = "/root/scratch/evidence_benign_%d" % os.getpid()
subprocess.run(["git", "-C", "/repo", "worktree", "add", "-q", "--detach", wt, "HEAD"], check=True)
res = {}
try:
    r = subprocess.run(["git", "-C", wt, "apply", patch])
    if r.returncode != 0:
        print("PATCH-DOES-NOT-APPLY")
        sys.exit(3)

    def one(pid):
        t0 = time.time()
        env = dict(os.environ, COCLS_REPO=wt, VERIF_EVIDENCE_DIR=ev)
        p = subprocess.run([sys.executable, "/verif/check.py", pid, "--tier", "quick"], env=env, cwd="/verif",
                           stdout=subprocess.PIPE, stderr=subprocess.PIPE, text=True)
        viol = [l for l in p.stdout.splitlines() if l.startswith("VIOLATION")]
        # keep what a violation names, so that the cause can be read without re-running
        detail = []
        for l in viol[:3]:
            for tok in l.split():
                if tok.startswith("replay="):
                    try:
                        detail.append(open(tok[7:]).read()[:1500])
                    except OSError:
                        pass
        return pid, {"rc": p.returncode, "seconds": round(time.time() - t0), "violations": viol[:6], "detail": detail,
                     "stderr_tail": (p.stderr.strip().splitlines() or [""])[-1][:300]}

    with ThreadPoolExecutor(jobs) as ex:
        for pid, r in ex.map(one, pids):
            res[pid] = r
            print("%s rc=%d %ds %s" % (pid, r["rc"], r["seconds"], " | ".join(v[:160] for v in r["violations"][:2])), flush=True)
finally:
    subprocess.run(["git", "-C", "/repo", "worktree", "remove", "--force", wt])
    subprocess.run(["rm", "-rf", ev])
alarms = sorted(p for p, r in res.items() if r["rc"] != 0)
print("ALARMS:", " ".join(alarms) if alarms else "none")
if out:
    json.dump({"patch": patch, "alarms": alarms, "checks": res}, open(out, "w"), indent=1)
