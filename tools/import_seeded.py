#!/usr/bin/env python3
"""Archive a confirmed seeded change: tools/import_seeded.py <src_dir> <seeded-id> <caught_by|MISSED> [note]
Copies patch.diff, demo.cpp, demo.txt and writes meta.json (property it breaks, what it needs, what was run, outcome)."""
import json, os, shutil, sys
src, sid, caught = sys.argv[1], sys.argv[2], sys.argv[3]
note = sys.argv[4] if len(sys.argv) > 4 else ""
dst = os.path.join("/verif/seeded", sid)
os.makedirs(dst, exist_ok=True)
for fn in ("patch.diff", "demo.cpp", "demo.txt"):
    if os.path.exists(os.path.join(src, fn)):
        shutil.copy(os.path.join(src, fn), os.path.join(dst, fn))
m = json.load(open(os.path.join(src, "meta.json")))
meta = {
    "id": sid,
    "property": m.get("property"),
    "summary": m.get("summary"),
    "needs": m.get("needs"),
    "author": "independent sub-agent given only the property text and a scratch worktree",
    "confirmed": {"compiles_and_suite_passes": m.get("tests_pass"), "demo_fails_with_change": m.get("demo_fails_with_change"),
                  "demo_passes_without": m.get("demo_passes_without"), "how": m.get("how_verified")},
    "ran": "python3 tools/run_seeded.py seeded/%s/patch.diff %s   (scratch worktree of /repo + COCLS_REPO)" % (sid, caught if caught != "MISSED" else m.get("property")),
    "outcome": ("caught by check %s" % caught) if caught != "MISSED" else "MISSED",
    "note": note,
}
json.dump(meta, open(os.path.join(dst, "meta.json"), "w"), indent=1)
print(dst, meta["outcome"])
