#!/usr/bin/env python3
"""Regenerates MANIFEST.json from the check plugins (checks/cXX.py) so that it is always valid and current."""
import json, os, sys
sys.path.insert(0, os.path.dirname(os.path.dirname(os.path.abspath(__file__))))
import check
from vlib import core

NOT_APPLICABLE = {}   # property id -> reason (kept in checks/na.json)
na_path = os.path.join(core.VERIF, "checks", "na.json")
if os.path.exists(na_path):
    NOT_APPLICABLE = json.load(open(na_path))

props = [json.loads(l) for l in open(os.path.join(core.VERIF, "properties.jsonl"))]
ids = check.all_ids()
checks = []
engines = {}
for pid in ids:
    spec = check.load(pid)
    checks.append({
        "property_id": pid,
        "quick_cmd": "python3 check.py %s --tier quick" % pid,
        "thorough_cmd": "python3 check.py %s --tier thorough" % pid,
        "evidence_file": "/verif/evidence/%s.json" % pid,
        "replay_cmd_template": "python3 check.py %s --replay {path}" % pid,
        "engine": "lean4-proof+correspondence",
        "level_claimed": {"category": spec.level, "text": spec.level_text, "design_ref": spec.design_ref},
        "level_note": spec.level_note,
        "technique": spec.technique,
    })
man = {
    "version": 1,
    "setup_cmd": "python3 check.py --setup",
    "hooks": {
        "guard": "COCLS_VERIF",
        "enable": "-DCOCLS_VERIF on the harness compile line (vlib/core.py BASE_FLAGS); no source hook exists in /repo at present: "
                  "the harnesses interpose std::atomic/mutex/thread by macro renaming around the #include of the cocls headers",
        "baseline_off_cmd": "bash tools/baseline.sh",
        "source_commits": [],
        "add_only": True,
    },
    "engines": [
        {"name": "lean4-proof+correspondence", "path": "/verif/check.py",
         "serves_properties": ids,
         "kind_free_text": "Lean 4 theorems over hand-written executable models (lean/CoclsModel), regenerated fact tables "
                           "from clang's AST (extract/), differential correspondence between the real headers (harness/) and the "
                           "model drivers (lean/Drivers) plus property oracles on implementation traces"}],
    "checks": checks,
    "not_applicable": [{"property_id": p["id"], "reason": NOT_APPLICABLE.get(p["id"], "check not built yet in this round (see DESIGN.md §9 order of work)")}
                       for p in props if p["id"] not in ids],
    "notes": "See DESIGN.md. known_findings.json lists genuine defects (open and fixed).",
}
json.dump(man, open(os.path.join(core.VERIF, "MANIFEST.json"), "w"), indent=1)
print("MANIFEST.json: %d checks, %d not applicable" % (len(checks), len(man["not_applicable"])))
